"""Level B behavioural correspondence: generated containers executed by the probe vs the Lean
runtime model running the same script on the same (merged) input."""
import json, os, re, shutil
from vlib import core, gen, levelb

ENV = {"VERIF_A": "alpha", "VERIF_N": "42", "VERIF_E": "", "VERIF_NEG": "-7", "VERIF_OCT": "010", "VERIF_HEX": "0x10"}   # VERIF_E: set, but empty


def ctor_name(cfg):
    return cfg.get("meta", {}).get("container_constructor", "NewGontainer")


def run_batch(ctx, items, race=False, tag="b", local=False, split=True):
    """items: list of (cfg_or_files, ops). cfg dicts get meta.pkg forced to a non-main package.
    returns list of dicts {accepted, cli_out, impl:[…]|None, model:[…]|None, files}"""
    root = os.path.join(ctx.scratch(), "lb_" + tag)
    shutil.rmtree(root, ignore_errors=True)
    mod = levelb.Module(root)
    out = []
    pkgs = []
    for i, (cfg, ops) in enumerate(items):
        if isinstance(cfg, dict):
            cfg.setdefault("meta", {})
            if cfg["meta"].get("pkg", "main") == "main":
                cfg["meta"]["pkg"] = "gen"
            # about a third of the configurations are distributed over 2-3 files in a way the documented merge rules
            # reassemble (scalars, maps, arguments, calls/tags/decorators in file order): the result must be the same
            if "__files__" in cfg:
                # the caller fixed the distribution over files; the rest of `cfg` is the merged view its oracle uses
                fl = cfg.pop("__files__")
                for f_ in fl:
                    f_.setdefault("meta", {})
                fl[0]["meta"].setdefault("pkg", cfg["meta"]["pkg"])
                files = [gen.yaml_doc(f_) for f_ in fl]
            elif split and ctx.rng.random() < 0.34:
                files = [gen.yaml_doc(f) for f in gen.split_config(ctx.rng, cfg, ctx.rng.randint(2, 3))]
            else:
                files = [gen.yaml_doc(cfg)]
            cn = ctor_name(cfg)
        else:
            files = [gen.yaml_doc(f) for f in cfg]
            cn = "NewGontainer"
            for f in cfg:
                cn = f.get("meta", {}).get("container_constructor", cn)
        name = "%s%04d" % (tag, i)
        rc, so, path = mod.gen_pkg(name, files, env=ENV)
        if local and rc == 0:
            m_ = __import__("re").search(r"^package (\w+)", open(path).read(), __import__("re").M)
            mod.add_local(name, m_.group(1))
        rec = {"accepted": rc == 0, "cli_out": so, "files": files, "ops": ops, "name": name, "impl": None, "model": None}
        if rc == 0:
            pkgs.append((name, cn))
        else:
            shutil.rmtree(os.path.join(root, name), ignore_errors=True)
        out.append(rec)
    if not pkgs:
        return out, None
    ok, bout, exe = levelb.build_probe(mod, pkgs, race=race)
    if not ok:
        return out, "probe does not build: " + bout[-3000:]
    scripts = [{"c": r["name"], "ops": r["ops"]} for r in out if r["accepted"]]
    res, rc, err = levelb.run_probe(exe, scripts, env=ENV)
    byname = {r.get("c"): r.get("results") for r in res if isinstance(r, dict)}
    for r in out:
        r["probe_rc"], r["probe_stderr"] = rc, err[-4000:]
        if r["accepted"]:
            r["impl"] = byname.get(r["name"])
            if r["impl"] is None:
                r["impl_crash"] = (rc, err[-2000:])
    if getattr(ctx, "have_model", True):
        for r in out:
            if not r["accepted"]:
                continue
            a = ctx.impl.ask({"op": "compile", "files": r["files"], "version": ""})
            if "input" not in a:
                continue
            m = ctx.model.ask({"op": "rt", "input": a["input"], "version": "", "env": [[k, v] for k, v in ENV.items()], "ops": r["ops"]})
            r["model"] = m.get("results")
            r["model_errs"] = m.get("errs")
            # the statements of the generated constructor (re-parsed from the file) against the emission model
            gi = ctx.impl.ask({"op": "emitted", "path": os.path.join(root, r["name"], "gen.go")})
            gm = ctx.model.ask({"op": "emit", "input": a["input"], "version": ""})
            r["emit_diff"] = emit_diff(gi.get("ok"), gm.get("ok"))
    return out, None


def emit_diff(impl, model):
    """first difference between the re-parsed constructor statements and the model's emission (whitespace-free texts)"""
    if impl is None or model is None:
        return {"impl": impl and impl[:3], "model": model and model[:3], "what": "not available"}
    ws = re.compile(r"[\s;]+")       # gofmt re-flows the text: line breaks replace `;`, spacing changes
    nm = [[ws.sub("", fn), [ws.sub("", x) for x in args]] for fn, args in model]
    impl = [[ws.sub("", fn), [ws.sub("", x) for x in args]] for fn, args in impl]
    for k, (x, y) in enumerate(zip(impl, nm)):
        if x != y:
            return {"at": k, "impl": x, "model": y}
    if len(impl) != len(nm):
        return {"at": min(len(impl), len(nm)), "impl": impl[len(nm):][:2], "model": nm[len(impl):][:2], "what": "length"}
    return None


def same(a, b):
    """compare one op result of probe and model: values up to serial renaming, errors by presence"""
    if a is None or b is None:
        return False
    if ("err" in a) != ("err" in b):
        return False
    if "err" in a:
        return True
    if "panic" in a or "badop" in b:
        return False
    return core.canon(levelb.canon_serials(a.get("ok"))) == core.canon(levelb.canon_serials(b.get("ok")))


def compare_script(impl, model):
    """whole-script comparison with serials renamed consistently across the script"""
    if impl is None or model is None or len(impl) != len(model):
        return [("length", impl, model)]
    diffs = []
    ta, tb = {}, {}
    for i, (a, b) in enumerate(zip(impl, model)):
        if ("err" in a) != ("err" in b) or ("panic" in a) != ("panic" in b) or ("nomethod" in a) != ("nomethod" in b) or "badop" in b:
            diffs.append((i, a, b)); continue
        if "err" in a or "panic" in a or "nomethod" in a:
            continue
        ca = levelb.canon_serials(a.get("ok"), ta)
        cb = levelb.canon_serials(b.get("ok"), tb)
        if core.canon(ca) != core.canon(cb):
            diffs.append((i, ca, cb))
    return diffs
