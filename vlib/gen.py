"""Generators: exhaustive string enumerators and seeded random structures."""
import itertools, random

ALPHA_PATTERN = ["%", "a", "1", ".", "_", "(", ")", '"', " ", "é", "𝄞"]


def strings_upto(alphabet, n):
    for k in range(n + 1):
        for t in itertools.product(alphabet, repeat=k):
            yield "".join(t)


def rand_unicode(rng, maxlen=12, pct=0.25):
    pool = ["%", "%", "a", "b", "Z", "0", "9", ".", "-", "_", "(", ")", '"', "'", "\\", " ", "\n", "\t", "\r",
            "\x00", "\x01", "\x7f", "\x1b", "é", "ß", "中", "𝄞", "😀", " ", "﻿", "�", "{", "}", "$", "@", "!", ",", "/", "*", "&"]
    n = rng.randint(0, maxlen)
    out = []
    for _ in range(n):
        if rng.random() < 0.1:
            out.append(chr(rng.choice([rng.randint(0x20, 0x7e), rng.randint(0xa0, 0x2fff), rng.randint(0x10000, 0x1ffff)])))
        else:
            out.append(rng.choice(pool))
    return "".join(out)


def yaml_str(s):
    """a YAML double-quoted scalar denoting exactly s"""
    out = ['"']
    for ch in s:
        o = ord(ch)
        if ch == '"':
            out.append('\\"')
        elif ch == "\\":
            out.append("\\\\")
        elif o < 0x20 or o == 0x7f or 0x80 <= o <= 0x9f or o in (0x2028, 0x2029, 0xfeff, 0xfffe, 0xffff) or 0xd800 <= o <= 0xdfff:
            if o <= 0xff:
                out.append("\\x%02x" % o)
            else:
                out.append("\\u%04x" % o)
        else:
            out.append(ch)
    out.append('"')
    return "".join(out)


# ---------------------------------------------------------------------------------------
# configurations

def yaml_doc(obj):
    """render a config dict as YAML (flow/JSON style; yaml.v3 reads it through the normal path)"""
    if obj is None:
        return "null"
    if obj is True:
        return "true"
    if obj is False:
        return "false"
    if isinstance(obj, Raw):
        return obj.text
    if isinstance(obj, (int,)):
        return str(obj)
    if isinstance(obj, float):
        return repr(obj)
    if isinstance(obj, str):
        return yaml_str(obj)
    if isinstance(obj, (list, tuple)):
        return "[" + ", ".join(yaml_doc(x) for x in obj) + "]"
    if isinstance(obj, dict):
        return "{" + ", ".join(yaml_str(k) + ": " + yaml_doc(v) for k, v in obj.items()) + "}"
    raise TypeError(type(obj))


class Raw:
    """verbatim YAML text (e.g. `.inf`, `1e400`, `0x10`)"""
    def __init__(self, text):
        self.text = text

    def __repr__(self):
        return "Raw(%r)" % self.text


FX = "probe/fx"          # fixture package import path
FX2 = "probe/fx2/pkg"    # second fixture package with identical symbols

SVC_NAMES = ["a", "b.c", "d-e", "f_g", "h1", "svc.db", "svc.log", "x.y-z", "k9", "mailer"]
PARAM_NAMES = ["p", "q.r", "host", "port", "s-t", "u_v", "n1", "name", "flag", "ratio"]
TAG_NAMES = ["t", "u.v", "w-x", "y_z"]
GETTERS = ["GetA", "Db", "Logger", "GetX1", "Mailer", "Svc", "GetFoo", "GetBar", "Q", "R2"]


def tag_obj(rng, name, prio):
    """object form of a tag; a YAML mapping has no key order, so either key may be written first"""
    return {"name": name, "priority": prio} if rng.random() < 0.5 else {"priority": prio, "name": name}


def gen_literal(rng):
    k = rng.randrange(9)
    if k == 0:
        return rng.choice([0, 1, -1, 42, -7, 2**31, -2**63, 2**63 - 1])
    if k == 1:
        return rng.choice([2**63, 2**64 - 1, 2**63 + 5])
    if k == 2:
        return rng.choice([1.5, -0.25, 3.0, 1e21, 1e-7, 123456789.125])
    if k == 3:
        return rng.choice([True, False])
    if k == 4:
        return None
    if k == 5:
        return rng.choice(["", "hello", "a b", "x\"y", "back\\slash", "new\nline", "é𝄞", "tab\t", "100%%", "%%", "a%%b"])
    if k == 6:
        return rng.choice(["plain", "v1.2.3", "-", "~", "null", "true", "1"])
    if k == 7:
        return rng.choice(["%%%%", "50%% off", "%%x%%"])
    return rng.choice([7, "seven", 7.5])


def gen_arg(rng, params, services, tags, allow=("lit", "param", "multi", "svc", "tagged", "value", "gontainer", "fn"), imp="fx"):
    k = rng.choice(allow)
    if k == "param" and params:
        return "%" + rng.choice(params) + "%"
    if k == "multi" and params:
        return rng.choice(["pre-", "", "a%%"]) + "%" + rng.choice(params) + "%" + rng.choice(["", ":", "-post", "%%"]) + (("%" + rng.choice(params) + "%") if rng.random() < 0.4 else "")
    if k == "svc" and services:
        return "@" + rng.choice(services)
    if k == "tagged" and tags:
        return "!tagged " + rng.choice(tags)
    if k == "value":
        return "!value " + rng.choice([imp + ".Global", "&" + imp + ".GlobalVal", imp + ".Obj{}", "&" + imp + ".Obj{}", imp + ".ID", '"%s".Global' % FX, '"%s".Global.Ctor' % FX])
    if k == "gontainer":
        return "$gontainer"
    if k == "fn":
        return rng.choice(['%env("VERIF_A")%', '%env("VERIF_MISSING", "dflt")%', '%envInt("VERIF_N")%', '%envInt("VERIF_MISSING", 5)%', 'x%env("VERIF_A")%y', '%env("VERIF_E", "dflt")%', '[%env("VERIF_E")%]', '%envInt("VERIF_NEG")%'])
    return gen_literal(rng)


def gen_config(rng, nsvc=None, nparams=None, valid=True, imp="fx", scopes=True, todo=True):
    """a mostly-valid configuration over the fixture universe (symbols exist, DAG of dependencies)"""
    nsvc = rng.randint(1, 6) if nsvc is None else nsvc
    nparams = rng.randint(0, 5) if nparams is None else nparams
    pnames = rng.sample(PARAM_NAMES, nparams)
    params = {}
    for i, n in enumerate(pnames):
        prev = pnames[:i]
        r = rng.random()
        if r < 0.45 or not prev:
            params[n] = gen_literal(rng)
        elif r < 0.75:
            params[n] = gen_arg(rng, prev, [], [], allow=("param", "multi"))
        elif r < 0.9:
            params[n] = gen_arg(rng, prev, [], [], allow=("fn",))
        else:
            params[n] = '%todo()%' if todo else 1
    snames = rng.sample(SVC_NAMES, nsvc)
    tags_used = []
    services = {}
    getters = rng.sample(GETTERS, nsvc)
    base = []  # services without tags / tagged deps: decorators may depend on them
    requested = set()  # tags already requested with !tagged: later services must not carry them
    for i, n in enumerate(snames):
        prev = snames[:i]
        s = {}
        if todo and rng.random() < 0.08:
            # a placeholder, sometimes carrying a draft definition that must stay inert
            services[n] = rng.choice([{"todo": True}, {"todo": True}, {"todo": True, "constructor": "%s.NewA" % imp, "arguments": ["draft"]},
                                      {"todo": True, "value": "%s.GlobalVal" % imp}, {"todo": True, "type": "*%s.Obj" % imp}])
            continue
        prev_live = [p for p in prev if not services[p].get("todo")]
        own_tags = []
        if rng.random() < 0.4:
            cand = [t for t in TAG_NAMES if t not in requested]
            own_tags = rng.sample(cand, min(len(cand), rng.randint(1, 2)))
        avail_tags = sorted({t if isinstance(t, str) else t["name"] for p in prev_live for t in services[p].get("tags", [])} - set(own_tags))
        allow = ["lit", "lit", "param", "multi", "svc", "svc", "tagged", "value", "gontainer", "fn"]
        form = rng.choice(["ctor", "ctor", "ctor", "ctorerr", "value", "type", "ctorval"])
        valtype = False
        if form in ("ctor", "ctorerr", "ctorval"):
            s["constructor"] = imp + "." + {"ctor": rng.choice(["NewA", "NewC"]), "ctorerr": "NewB", "ctorval": "NewVal"}[form]
            if rng.random() < 0.2:
                s["constructor"] = '"%s".%s' % (FX, s["constructor"].split(".")[-1])
            s["arguments"] = [gen_arg(rng, pnames, prev_live, avail_tags, allow) for _ in range(rng.randint(0, 3))]
            valtype = form == "ctorval"
        elif form == "value":
            v = rng.choice(["Global", "&GlobalVal", "Obj{}", "&Obj{}"])
            s["value"] = (v[0] if v[0] == "&" else "") + imp + "." + v.lstrip("&")
            valtype = v == "Obj{}"
        else:
            valtype = rng.random() < 0.3
            s["type"] = ("" if valtype else "*") + imp + ".Obj"
        if rng.random() < 0.5:
            s["getter"] = getters[i]
            r = rng.random()
            if r < 0.5:
                s["type"] = ("" if valtype else "*") + imp + ".Obj"
            if rng.random() < 0.4:
                s["must_getter"] = rng.random() < 0.7
        if not valtype and form in ("ctor", "ctorerr"):
            if rng.random() < 0.4:
                s["calls"] = []
                for _ in range(rng.randint(1, 3)):
                    w = rng.random() < 0.35
                    c = [("With%d" if w else "Call%d") % rng.randint(1, 2), [gen_arg(rng, pnames, prev_live, avail_tags, allow) for _ in range(rng.randint(0, 2))]]
                    if w or rng.random() < 0.2:
                        c.append(w)
                    s["calls"].append(c)
            if rng.random() < 0.35:
                s["fields"] = {f: gen_arg(rng, pnames, prev_live, avail_tags, allow) for f in rng.sample(["F1", "F2"], rng.randint(1, 2))}
        if own_tags:
            s["tags"] = [t if rng.random() < 0.5 else tag_obj(rng, t, rng.choice([0, 1, -1, 5, 5, 100, -100])) for t in own_tags]
        for a in _all_args(s):
            if isinstance(a, str) and a.startswith("!tagged"):
                requested.add(a.split()[-1])
        if scopes and rng.random() < 0.35:
            s["scope"] = rng.choice(["shared", "contextual", "non_shared"])
        if "tags" not in s and not any(isinstance(a, str) and a.startswith("!tagged") for a in _all_args(s)):
            base.append(n)
        services[n] = s
    decorators = []
    all_tags = sorted({t if isinstance(t, str) else t["name"] for s in services.values() for t in s.get("tags", [])})
    # decorators may only depend on base services that do not (transitively) reach a tagged service
    safe = [b for b in base if _reach_ok(b, services)]
    if all_tags and rng.random() < 0.6:
        for _ in range(rng.randint(1, 3)):
            decorators.append({"tag": rng.choice(all_tags + ["*"] if False else all_tags), "decorator": imp + ".Dec%d" % rng.randint(1, 2),
                               "arguments": [gen_arg(rng, pnames, safe, [], ["lit", "param", "svc", "value"]) for _ in range(rng.randint(0, 2))]})
    cfg = {}
    m = {}
    if rng.random() < 0.5:
        m["pkg"] = rng.choice(["main", "gen", "mypkg", "myPkg_2"])
    if rng.random() < 0.3:
        m["container_type"] = rng.choice(["Gontainer", "MyContainer", "c1"])
    if rng.random() < 0.3:
        m["container_constructor"] = rng.choice(["NewGontainer", "New", "Build"])
    if rng.random() < 0.4:
        m["default_must_getter"] = rng.random() < 0.6
    m["imports"] = {"fx": FX}
    if imp != "fx":
        m["imports"][imp] = FX
    if rng.random() < 0.3:
        m["imports"]["other"] = FX2
    if rng.random() < 0.3:
        m["functions"] = {"myfn": imp + ".Fn1"}
    cfg["meta"] = m
    if params:
        cfg["parameters"] = params
    cfg["services"] = services
    if decorators:
        cfg["decorators"] = decorators
    _repair_scopes(cfg)
    return cfg


def _all_args(s):
    out = list(s.get("arguments", []))
    for c in s.get("calls", []):
        out += c[1] if len(c) > 1 else []
    out += list(s.get("fields", {}).values())
    return out


def _reach_ok(b, services):
    seen, todo = set(), [b]
    while todo:
        x = todo.pop()
        if x in seen or x not in services:
            continue
        seen.add(x)
        s = services[x]
        if s.get("tags"):
            return False
        for a in _all_args(s):
            if isinstance(a, str) and a.startswith("!tagged"):
                return False
            if isinstance(a, str) and a.startswith("@"):
                todo.append(a[1:])
    return True


def dep_closure(cfg):
    """independent (Python) oracle: transitive service dependencies of every service, through
    arguments, fields, calls, requested tags → carriers, carried tags → decorator dependencies"""
    services = cfg.get("services", {})
    decs = cfg.get("decorators", [])
    def tags_of(s):
        return [t if isinstance(t, str) else t.get("name") for t in s.get("tags", [])]
    def direct(args):
        svc, tg = [], []
        for a in args:
            if isinstance(a, str) and a.startswith("@"):
                svc.append(a[1:])
            elif isinstance(a, str) and a.startswith("!tagged"):
                tg.append(a.split()[-1])
        return svc, tg
    edges = {}
    for n, s in services.items():
        if s.get("todo"):
            edges[n] = set()
            continue
        svc, tg = direct(_all_args(s))
        for t in tags_of(s):
            for d in decs:
                if d.get("tag") == t:
                    s2, t2 = direct(d.get("arguments", []))
                    svc += s2
                    tg += t2
        out = set(svc)
        for t in tg:
            out |= {m for m, s2 in services.items() if not s2.get("todo") and t in tags_of(s2)}
        edges[n] = out
    # tags requested by decorators resolved above (one level); iterate to closure on services
    clo = {}
    for n in services:
        seen, todo = set(), list(edges.get(n, ()))
        while todo:
            x = todo.pop()
            if x in seen:
                continue
            seen.add(x)
            todo += list(edges.get(x, ()))
        clo[n] = seen
    return clo


def _repair_scopes(cfg):
    clo = dep_closure(cfg)
    sv = cfg["services"]
    for n, s in sv.items():
        if s.get("scope") == "shared" and any(sv.get(d, {}).get("scope") == "contextual" for d in clo[n]):
            del s["scope"]


def split_config(rng, cfg, nfiles):
    """distribute a configuration over files in a way the documented merge rules reassemble"""
    import copy
    files = [dict() for _ in range(nfiles)]
    def put(i, path, value):
        d = files[i]
        for k in path[:-1]:
            d = d.setdefault(k, {})
        d[path[-1]] = value
    for k, v in cfg.get("meta", {}).items():
        if isinstance(v, dict):
            for kk, vv in v.items():
                put(rng.randrange(nfiles), ["meta", k, kk], vv)
        else:
            put(rng.randrange(nfiles), ["meta", k], v)
    for k, v in cfg.get("parameters", {}).items():
        put(rng.randrange(nfiles), ["parameters", k], v)
    for n, s in cfg.get("services", {}).items():
        if rng.random() < 0.5:
            put(rng.randrange(nfiles), ["services", n], copy.deepcopy(s))
            continue
        for a, v in s.items():
            if a in ("calls", "tags") and len(v) > 1:
                cut = rng.randint(0, len(v))
                i, j = sorted([rng.randrange(nfiles), rng.randrange(nfiles)])
                if i == j:
                    put(i, ["services", n, a], v)
                else:
                    if v[:cut]:
                        put(i, ["services", n, a], v[:cut])
                    if v[cut:]:
                        put(j, ["services", n, a], v[cut:])
            elif a == "fields":
                for f, fv in v.items():
                    put(rng.randrange(nfiles), ["services", n, "fields", f], fv)
            else:
                put(rng.randrange(nfiles), ["services", n, a], v)
    decs = cfg.get("decorators", [])
    if decs:
        cuts = sorted(rng.randint(0, len(decs)) for _ in range(nfiles - 1))
        bounds = [0] + cuts + [len(decs)]
        for i in range(nfiles):
            part = decs[bounds[i]:bounds[i + 1]]
            if part:
                files[i]["decorators"] = part
    return files


# ---------------------------------------------------------------------------------------
# level-A ("wild") configurations: no fixture/probe restrictions — any creation form with calls, fields and
# tags, references in every direction (cycles allowed), names that collide up to case or are prefixes of
# each other, repeated references inside one pattern, non-ASCII function arguments.

WILD_SVC = ["db", "DB", "Db", "cache", "cache.v2", "cache-v2", "repo", "Repo", "a", "a.b", "a-b", "a_b", "handler", "h1"]
# parameters, services and tags are separate namespaces: the pools overlap on purpose (`%db%`, `@db` and `!tagged db` are three
# different things that may all occur in one argument list)
WILD_PARAM = ["host", "Host", "HOST", "port", "dsn", "dsn.ro", "env", "region", "x", "x1", "db", "cache", "repo", "a", "t"]
WILD_TAGS = ["t", "T", "t.u", "plug-in", "db", "cache", "a", "host"]
WILD_FIELDS = ["Host", "host", "Port", "F1", "f1"]


def wild_pattern(rng, params):
    refs = ["%" + rng.choice(params) + "%" for _ in range(3)] if params else []
    ghost = ["%ghost%", "%missing.p%"]
    lits = ["", "x", "-", ":", "é", "100%%", "%%", " "]
    fns = ['%env("A")%', '%env("A", "Grüß Gott")%', '%envInt("N", 5)%', '%todo("później")%', '%todo()%', '%env("Ł")%']
    k = rng.randint(1, 5)
    parts = []
    for _ in range(k):
        r = rng.random()
        if r < 0.45 and refs:
            parts.append(rng.choice(refs))       # the same reference may repeat
        elif r < 0.5:
            parts.append(rng.choice(ghost))
        elif r < 0.7:
            parts.append(rng.choice(fns))
        else:
            parts.append(rng.choice(lits))
    return "".join(parts)


def wild_arg(rng, params, services, tags, earlier=None):
    r = rng.random()
    if r < 0.3 and services:
        if earlier and rng.random() < 0.75:
            return "@" + rng.choice(earlier)
        return "@" + rng.choice(services)
    if r < 0.34:
        return "@" + rng.choice(["ghost", "Ghost.svc"])
    if r < 0.5 and tags:
        return "!tagged " + rng.choice(tags)
    if r < 0.6:
        return rng.choice(["!value pkg.Var", "!value &pkg.T{}", "$gontainer"])
    if r < 0.85:
        return wild_pattern(rng, params)
    return gen_literal(rng)


def gen_config_wild(rng):
    ns = rng.randint(1, 6)
    np_ = rng.randint(0, 5)
    snames = rng.sample(WILD_SVC, ns)
    pnames = rng.sample(WILD_PARAM, np_)
    tags = rng.sample(WILD_TAGS, rng.randint(0, 3))
    if rng.random() < 0.5:
        # the same identifier as a service, a parameter and a tag
        shared_names = [n for n in snames if n in WILD_PARAM or n in WILD_TAGS]
        for n in shared_names:
            if n in WILD_PARAM and n not in pnames and rng.random() < 0.7:
                pnames.append(n)
            if n in WILD_TAGS and n not in tags and rng.random() < 0.7:
                tags.append(n)
    params = {n: (wild_pattern(rng, pnames[:i] if rng.random() < 0.8 else pnames) if rng.random() < 0.6 else gen_literal(rng)) for i, n in enumerate(pnames)}
    services = {}
    for idx, n in enumerate(snames):
        def warg(rng, pn, sn, tg, _e=snames[:idx]):
            return wild_arg(rng, pn, sn, tg, earlier=_e)
        if rng.random() < 0.08:
            services[n] = {"todo": True, "arguments": ["@nothing"]}
            if rng.random() < 0.6:
                # a placeholder keeps its declared scope: it IS a contextual / shared service for everybody who depends on it
                services[n]["scope"] = rng.choice(["shared", "contextual", "contextual", "non_shared"])
            continue
        s = {}
        form = rng.choice(["ctor", "ctor", "value", "type", "ctor-noargs"])
        if form == "ctor":
            s["constructor"] = "pkg.New"
            s["arguments"] = [warg(rng, pnames, snames, tags) for _ in range(rng.randint(0, 3))]
        elif form == "ctor-noargs":
            s["constructor"] = "pkg.New"
        elif form == "value":
            s["value"] = rng.choice(["pkg.Var", "&pkg.T{}"])
        else:
            s["type"] = "*pkg.T"
        if rng.random() < 0.4:
            s["calls"] = [[rng.choice(["Set", "With"]), [warg(rng, pnames, snames, tags) for _ in range(rng.randint(0, 2))]] + ([True] if rng.random() < 0.3 else [])
                          for _ in range(rng.randint(1, 2))]
        if rng.random() < 0.4:
            s["fields"] = {f: warg(rng, pnames, snames, tags) for f in rng.sample(WILD_FIELDS, rng.randint(1, 3))}
        if tags and rng.random() < 0.5:
            s["tags"] = [t if rng.random() < 0.6 else tag_obj(rng, t, rng.choice([0, 5, -5])) for t in rng.sample(tags, rng.randint(1, len(tags)))]
        if rng.random() < 0.5:
            s["scope"] = rng.choice(["shared", "contextual", "non_shared"])
        services[n] = s
    cfg = {"meta": {"pkg": "gen", "imports": {"pkg": "my/pkg"}}, "services": services}
    if params:
        cfg["parameters"] = params
    if tags and rng.random() < 0.6:
        cfg["decorators"] = [{"tag": rng.choice(tags * 4 + ["*"]), "decorator": "pkg.Dec", "arguments": [wild_arg(rng, pnames, snames, tags) for _ in range(rng.randint(0, 2))]}
                             for _ in range(rng.randint(1, 3))]
    return cfg
