"""Generators: exhaustive string enumerators and seeded random structures."""
import itertools, random

ALPHA_PATTERN = ["%", "a", "1", ".", "_", "(", ")", '"', " ", "é", "𝄞"]


def strings_upto(alphabet, n):
    for k in range(n + 1):
        for t in itertools.product(alphabet, repeat=k):
            yield "".join(t)


def rand_unicode(rng, maxlen=12, pct=0.25):
    pool = ["%", "%", "a", "b", "Z", "0", "9", ".", "-", "_", "(", ")", '"', "'", "\\", " ", "\n", "\t", "\r",
            "\x00", "\x01", "\x7f", "\x1b", "é", "ß", "中", "𝄞", "😀", " ", "﻿", "�", "{", "}", "$", "@", "!", ",", "/", "*", "&"]
    n = rng.randint(0, maxlen)
    out = []
    for _ in range(n):
        if rng.random() < 0.1:
            out.append(chr(rng.choice([rng.randint(0x20, 0x7e), rng.randint(0xa0, 0x2fff), rng.randint(0x10000, 0x1ffff)])))
        else:
            out.append(rng.choice(pool))
    return "".join(out)


def yaml_str(s):
    """a YAML double-quoted scalar denoting exactly s"""
    out = ['"']
    for ch in s:
        o = ord(ch)
        if ch == '"':
            out.append('\\"')
        elif ch == "\\":
            out.append("\\\\")
        elif o < 0x20 or o == 0x7f or 0x80 <= o <= 0x9f or o in (0x2028, 0x2029, 0xfeff, 0xfffe, 0xffff) or 0xd800 <= o <= 0xdfff:
            if o <= 0xff:
                out.append("\\x%02x" % o)
            else:
                out.append("\\u%04x" % o)
        else:
            out.append(ch)
    out.append('"')
    return "".join(out)
