"""Independent (documentation-level) oracle for what a generated container must build, evaluated on
the probe's object descriptions over the fixture universe. Written from docs/*.md, not from the code."""
import re
from vlib import gen

ENVV = {"VERIF_A": "alpha", "VERIF_N": "42", "VERIF_E": "", "VERIF_NEG": "-7", "VERIF_OCT": "010", "VERIF_HEX": "0x10"}


def tags_of(s):
    return [(t, 0) if isinstance(t, str) else (t["name"], t.get("priority", 0)) for t in s.get("tags", [])]


def resolve_import(imp, cfg):
    """the package an import reference denotes, as documented: surrounding quotes dropped, "." = the current
    package (""), an alias of meta.imports replaced when it is the whole first path segment"""
    imp = imp.strip('"')
    if imp == ".":
        return ""
    tbl = cfg.get("meta", {}).get("imports", {})
    seg = imp.split("/")[0]
    if seg in tbl:
        return tbl[seg] + imp[len(seg):]
    return imp


def pkg_of(ref, cfg):
    """(import path, symbol) of a symbol reference: alias.Sym[.Field] / alias/sub.Sym / "path".Sym[.Field] / ".".Sym"""
    r = ref[1:] if ref.startswith("&") else ref
    m = re.match(r'^("[^"]*")\.(.*)$', r)
    if m:
        return resolve_import(m.group(1), cfg), m.group(2)
    if "/" in r:
        k = r.index(".", r.rindex("/"))
        return resolve_import(r[:k], cfg), r[k + 1:]
    # an alias may itself contain dots (`a.b.NewB` with alias `a.b`): the import part is matched greedily
    if "." in r and r.rsplit(".", 1)[0] in cfg.get("meta", {}).get("imports", {}):
        imp, sym = r.rsplit(".", 1)
        return resolve_import(imp, cfg), sym
    m = re.match(r'^([^."]+)\.(.*)$', r)
    if not m:
        return None, ref
    return resolve_import(m.group(1), cfg), m.group(2)


def lab(pth, sym):
    return sym if pth == "" else pth + "." + sym


def eval_pattern(cfg, s, depth=0):
    """documented evaluation of a parameter pattern → ('ok', value) | ('err',)"""
    if depth > 20:
        return ("err",)
    parts = s.split("%")
    if len(parts) % 2 == 0:
        return ("err",)
    chunks = []
    for i, p in enumerate(parts):
        if i % 2 == 0:
            if p != "":
                chunks.append(("lit", p))
        else:
            if p == "":
                chunks.append(("lit", "%"))
            else:
                chunks.append(("tok", p))
    if s == "":
        chunks = [("lit", "")]
    vals = []
    for k, p in chunks:
        if k == "lit":
            vals.append(p)
            continue
        if re.fullmatch(r"[A-Za-z]((\.|-|_)?[A-Za-z0-9])*", p):
            r = eval_param(cfg, p, depth + 1)
            if r[0] == "err":
                return r
            vals.append(r[1])
            continue
        m = re.fullmatch(r"([A-Za-z][A-Za-z0-9_]*)\((.*)\)", p)
        if not m:
            return ("err",)
        fn, args = m.group(1), m.group(2)
        import json
        try:
            argv = json.loads("[" + args + "]") if args.strip() else []
        except Exception:
            return ("err",)
        userfn = cfg.get("meta", {}).get("functions", {}).get(fn, "")
        if fn in ("env", "envInt", "todo") and userfn:
            # a user registration under a built-in name replaces the built-in (the last registration wins)
            if userfn.endswith(".Fn1"):
                vals.append("fn1/%d" % len(argv))
            elif userfn.endswith(".FnInt"):
                vals.append(41 + len(argv))
            else:
                return ("err",)
        elif fn == "env":
            if argv and argv[0] in ENVV:
                vals.append(ENVV[argv[0]])
            elif len(argv) > 1:
                vals.append(argv[1])
            else:
                return ("err",)
        elif fn == "envInt":
            if argv and argv[0] in ENVV:
                try:
                    vals.append(int(ENVV[argv[0]]))
                except ValueError:
                    return ("err",)
            elif len(argv) > 1:
                vals.append(argv[1])
            else:
                return ("err",)
        elif fn == "todo":
            return ("err", argv[0] if argv else "parameter todo")
        elif cfg.get("meta", {}).get("functions", {}).get(fn, "").endswith(".Fn1") or fn == "myfn":
            vals.append("fn1/%d" % len(argv))
        elif cfg.get("meta", {}).get("functions", {}).get(fn, "").endswith(".FnU") and len(argv) == 2:
            vals.append("u%d/f%d" % (argv[0], argv[1]))
        elif cfg.get("meta", {}).get("functions", {}).get(fn, "").endswith(".FnD") and len(argv) == 2:
            vals.append("d%d/%s" % (argv[0], argv[1]))
        elif cfg.get("meta", {}).get("functions", {}).get(fn, "").endswith(".FnInt"):
            vals.append(41 + len(argv))
        else:
            return ("err",)
    if len(vals) == 1:
        return ("ok", vals[0])
    return ("ok", "".join(cast(v) for v in vals))


def cast(v):
    if v is None:
        return "nil"
    if v is True:
        return "true"
    if v is False:
        return "false"
    if isinstance(v, float):
        return fmt_float(v)
    return str(v)


def fmt_float(f):
    from decimal import Decimal
    d = Decimal(repr(f))
    s = format(d, "f")
    if "." in s:
        s = s.rstrip("0").rstrip(".")
    return s


def eval_param(cfg, name, depth=0):
    ps = cfg.get("parameters", {})
    if name not in ps:
        return ("err",)
    v = ps[name]
    if isinstance(v, str):
        return eval_pattern(cfg, v, depth)
    return ("ok", v)


def prim_matches(v, d):
    """does the description d denote the YAML literal v with its documented Go type"""
    if v is None:
        return d.get("k") == "nil"
    if isinstance(v, bool):
        return d.get("k") == "bool" and d.get("v") == v
    if isinstance(v, int):
        if v >= 2**63:
            return d.get("k") == "uint64" and d.get("v") == str(v)
        return d.get("k") == "int" and d.get("v") == str(v)
    if isinstance(v, float):
        return d.get("k") == "float64" and d.get("v") == fmt_float(v)
    if isinstance(v, str):
        return d.get("k") == "string" and d.get("v") == v
    return False


class Mismatch(Exception):
    pass


def expect_arg(cfg, a, d, getdesc, path):
    """a: declared argument; d: observed description"""
    if not isinstance(a, str):
        if not prim_matches(a, d):
            raise Mismatch("%s: literal %r injected as %r" % (path, a, d))
        return
    if a.startswith("@"):
        return ("service", a[1:], d)
    if a.startswith("!tagged"):
        return ("tagged", a.split()[-1], d)
    if a.startswith("!value"):
        ref = a.split(None, 1)[1]
        pth, sym = pkg_of(ref, cfg)
        if sym == "ID":
            ok = d.get("k") == "string" and d.get("v") == pth
        elif sym == "Global.Ctor":
            ok = d.get("k") == "string" and d.get("v") == lab(pth, "Global")
        elif sym == "Global":
            ok = d.get("k") == "obj" and d.get("ctor") == lab(pth, "Global") and d.get("ptr") is True
        elif sym == "GlobalVal":
            ok = d.get("k") == "obj" and d.get("ctor") == lab(pth, "GlobalVal") and d.get("ptr") == ref.startswith("&")
        elif sym == "Obj{}":
            ok = d.get("k") == "obj" and d.get("ctor") == "" and d.get("ptr") == ref.startswith("&")
        else:
            ok = True
        if not ok:
            raise Mismatch("%s: !value %s injected as %r" % (path, ref, d))
        return
    if a == "$gontainer":
        if d.get("k") != "container" or d.get("nil") or d.get("same") is not True:
            raise Mismatch("%s: $gontainer must be the container itself, injected %r" % (path, d))
        return
    r = eval_pattern(cfg, a)
    if r[0] == "err":
        raise Mismatch("%s: pattern %r cannot be evaluated but an object was built" % (path, a))
    if not prim_matches(r[1], d):
        raise Mismatch("%s: pattern %r evaluates to %r but %r was injected" % (path, a, r[1], d))


def check_service(cfg, name, d, deferred):
    """d: description returned by Get(name). Walk decorators (outermost last), withers, base."""
    s = cfg["services"][name]
    decs = [dc for dc in cfg.get("decorators", []) if dc["tag"] in [t for t, _ in tags_of(s)]]
    cur = d
    for dc in reversed(decs):
        pth, sym = pkg_of(dc["decorator"], cfg)
        if cur.get("k") != "obj" or cur.get("ctor") != lab(pth, sym):
            raise Mismatch("service %r: expected result of decorator %s, got %r" % (name, dc["decorator"], {k: cur.get(k) for k in ("k", "ctor")}))
        args = cur["args"]["v"]
        if len(args) != 2 + len(dc.get("arguments", [])) or args[0].get("v") != dc["tag"] or args[1].get("v") != name:
            raise Mismatch("service %r: decorator %s received %r" % (name, dc["decorator"], args))
        for i, a in enumerate(dc.get("arguments", [])):
            r = expect_arg(cfg, a, args[2 + i], None, "service %r decorator arg %d" % (name, i))
            if r:
                deferred.append(r)
        nxt = cur.get("prev") or cur.get("F1")
        if nxt is None:
            nxt = {"k": "nilobj"}
        cur = nxt
    calls = s.get("calls", [])
    # split the call list at withers, walking backwards
    seg = []
    for c in reversed(calls):
        meth, cargs = c[0], (c[1] if len(c) > 1 else [])
        imm = c[2] if len(c) > 2 else False
        if imm:
            log = cur.get("log", [])
            if [e["m"] for e in log] != [x[0] for x in reversed(seg)]:
                raise Mismatch("service %r: calls after wither %s: log %r expected %r" % (name, meth, [e["m"] for e in log], [x[0] for x in reversed(seg)]))
            for e, x in zip(log, reversed(seg)):
                for i, a in enumerate(x[1]):
                    r = expect_arg(cfg, a, e["args"]["v"][i], None, "service %r call %s arg %d" % (name, x[0], i))
                    if r:
                        deferred.append(r)
            seg = []
            if cur.get("k") != "obj" or not cur.get("ctor", "").endswith("." + meth):
                raise Mismatch("service %r: expected result of wither %s, got %r" % (name, meth, cur.get("ctor")))
            wa = cur["args"]["v"]
            if len(wa) != len(cargs):
                raise Mismatch("service %r: wither %s received %d args, declared %d" % (name, meth, len(wa), len(cargs)))
            for i, a in enumerate(cargs):
                r = expect_arg(cfg, a, wa[i], None, "service %r wither %s arg %d" % (name, meth, i))
                if r:
                    deferred.append(r)
            cur = cur.get("prev") or {"k": "nilobj"}
        else:
            seg.append((meth, cargs))
    # base object
    if "constructor" in s:
        pth, sym = pkg_of(s["constructor"], cfg)
        if cur.get("k") != "obj" or cur.get("ctor") != lab(pth, sym):
            raise Mismatch("service %r: declared constructor %s, built by %r" % (name, s["constructor"], cur.get("ctor")))
        got = cur["args"]["v"]
        decl = s.get("arguments", [])
        if len(got) != len(decl):
            raise Mismatch("service %r: %d constructor arguments declared, %d passed" % (name, len(decl), len(got)))
        for i, a in enumerate(decl):
            r = expect_arg(cfg, a, got[i], None, "service %r constructor arg %d" % (name, i))
            if r:
                deferred.append(r)
    elif "value" in s:
        r = expect_arg(cfg, "!value " + s["value"], cur, None, "service %r value" % name)
    else:
        t = s.get("type", "")
        if t.startswith("*"):
            if cur.get("k") != "nilobj":
                raise Mismatch("service %r: type-only %s must be the zero value, got %r" % (name, t, cur))
        elif not (cur.get("k") == "obj" and cur.get("ctor") == ""):
            raise Mismatch("service %r: type-only %s must be the zero value, got %r" % (name, t, cur))
    if cur.get("k") == "obj":
        log = cur.get("log", [])
        if [e["m"] for e in log] != [x[0] for x in reversed(seg)]:
            raise Mismatch("service %r: call log %r, declared %r" % (name, [e["m"] for e in log], [x[0] for x in reversed(seg)]))
        for e, x in zip(log, reversed(seg)):
            if len(e["args"]["v"]) != len(x[1]):
                raise Mismatch("service %r: call %s received %d args" % (name, x[0], len(e["args"]["v"])))
            for i, a in enumerate(x[1]):
                r = expect_arg(cfg, a, e["args"]["v"][i], None, "service %r call %s arg %d" % (name, x[0], i))
                if r:
                    deferred.append(r)
        for f, a in s.get("fields", {}).items():
            if f not in cur:
                if a is None or (isinstance(a, str) and not a.startswith(("@", "!", "$")) and eval_pattern(cfg, a) == ("ok", None)):
                    continue
                raise Mismatch("service %r: field %s not assigned" % (name, f))
            r = expect_arg(cfg, a, cur[f], None, "service %r field %s" % (name, f))
            if r:
                deferred.append(r)


def check_deferred(cfg, deferred, depth=0):
    """injected services / tagged slices are themselves built per their own definition"""
    if depth > 6:
        return
    for kind, ref, d in deferred:
        nxt = []
        if kind == "service":
            if ref in cfg["services"] and not cfg["services"][ref].get("todo"):
                check_service(cfg, ref, d, nxt)
        else:
            carriers = [(n, dict(tags_of(s))[ref]) for n, s in cfg["services"].items() if not s.get("todo") and ref in dict(tags_of(s))]
            carriers.sort(key=lambda x: (-x[1], x[0]))
            if d.get("k") != "slice" or len(d["v"]) != len(carriers):
                raise Mismatch("!tagged %s: %d carriers %r, injected %r" % (ref, len(carriers), carriers, d.get("k")))
            for (n, _), e in zip(carriers, d["v"]):
                check_service(cfg, n, e, nxt)
        check_deferred(cfg, nxt, depth + 1)


def service_can_fail(cfg, name, seen=None):
    """does building `name` (transitively) hit a todo service, a failing constructor or a failing pattern"""
    seen = seen or set()
    if name in seen:
        return False
    seen.add(name)
    s = cfg["services"].get(name)
    if s is None or s.get("todo"):
        return True
    if "NewFail" in s.get("constructor", ""):
        return True
    if not s.get("constructor") and not s.get("value") and s.get("fields") and str(s.get("type", "")).startswith("*"):
        return True       # nothing but a pointer type: the zero value (a nil pointer) cannot take a field
    args = gen._all_args(s)
    for dc in cfg.get("decorators", []):
        if dc["tag"] in [t for t, _ in tags_of(s)]:
            args = args + dc.get("arguments", [])
    for a in args:
        if isinstance(a, str):
            if a.startswith("@"):
                if service_can_fail(cfg, a[1:], seen):
                    return True
            elif a.startswith("!tagged"):
                t = a.split()[-1]
                for n, s2 in cfg["services"].items():
                    if t in dict(tags_of(s2)) and service_can_fail(cfg, n, seen):
                        return True
            elif not a.startswith("!value") and a != "$gontainer":
                if eval_pattern(cfg, a)[0] == "err":
                    return True
    return False
