#!/usr/bin/env python3
"""Confirm a sub-agent's seeded change in its scratch worktree, run the checks against it in /repo, and
store it under /verif/seeded/<id>/.
usage: tools/seedkeep.py <seed-id> <worktree> <property> "<needs…>" [checks to run …]"""
import json, os, shutil, subprocess, sys
V = os.path.dirname(os.path.dirname(os.path.abspath(__file__)))
sid, wt, prop, needs = sys.argv[1:5]
checks = sys.argv[5:] or [prop]
env = dict(os.environ, GOFLAGS="-mod=mod", GOPROXY="off", GOSUMDB="off", GOTOOLCHAIN="local")
seed = os.path.join(wt, "_seed")
SUF = os.environ.get("SEED_SUFFIX", "")     # two alternatives per worktree: patchA.diff/demoA.sh, patchB.diff/demoB.sh
patch = os.path.join(seed, "patch%s.diff" % SUF)
ran = []
def sh(cmd, cwd):
    p = subprocess.run(cmd, cwd=cwd, env=env, shell=isinstance(cmd, str), capture_output=True, text=True, timeout=1800)
    ran.append({"cmd": cmd if isinstance(cmd, str) else " ".join(cmd), "cwd": cwd, "rc": p.returncode, "tail": (p.stdout + p.stderr)[-400:]})
    return p.returncode
# state: patch applied?
applied = subprocess.run(["git", "apply", "--check", "-R", patch], cwd=wt, capture_output=True).returncode == 0
if not applied:
    assert sh(["git", "apply", patch], wt) == 0, "cannot apply patch in worktree"
ok_build = sh("go build ./...", wt) == 0
ok_tests = sh("go test -vet=off -count=1 ./...", wt) == 0
demo = "demo%s.sh" % SUF if os.path.exists(os.path.join(seed, "demo%s.sh" % SUF)) else None
rc_with = sh("bash _seed/%s" % demo, wt) if demo else None
sh(["git", "apply", "-R", patch], wt)
rc_without = sh("bash _seed/%s" % demo, wt) if demo else None
confirmed = ok_build and ok_tests and demo and rc_with != 0 and rc_without == 0
print("build", ok_build, "tests-with-patch", ok_tests, "demo with/without", rc_with, rc_without, "=> confirmed", bool(confirmed))
det = {}
if confirmed:
    q = subprocess.run([os.path.join(V, "tools", "seedtest.py"), patch] + checks, cwd=V, capture_output=True, text=True, timeout=7200)
    print(q.stdout[-3000:], q.stderr[-500:])
    try:
        det = json.loads(q.stdout.strip().splitlines()[-1])
    except Exception:
        det = {"error": q.stdout[-300:]}
    dst = os.path.join(V, "seeded", sid)
    shutil.rmtree(dst, ignore_errors=True)
    os.makedirs(dst)
    for f in os.listdir(seed):
        src = os.path.join(seed, f)
        if os.path.isfile(src) and os.path.getsize(src) < 200000 and f != "gontainer" and not f.endswith(".bin"):
            if SUF and (("A" in SUF and ("B." in f or f.endswith("B"))) or ("B" in SUF and ("A." in f or f.endswith("A")))):
                continue
            shutil.copy(src, os.path.join(dst, f.replace("patch%s.diff" % SUF, "patch.diff").replace("demo%s.sh" % SUF, "demo.sh") if SUF else f))
    json.dump({"id": sid, "breaks_property": prop, "needs_to_manifest": needs, "origin": "independent sub-agent given only the property text and a scratch worktree",
               "confirmed": {"builds": ok_build, "existing_tests_pass_with_change": ok_tests, "demo_exit_with_change": rc_with, "demo_exit_without_change": rc_without},
               "what_i_ran": ran, "checks_run_quick_tier": det, "detected_by": sorted(k for k, v in det.items() if v is True)},
              open(os.path.join(dst, "meta.json"), "w"), indent=1)
    print("stored", dst, "detected_by", sorted(k for k, v in det.items() if v is True))
