#!/usr/bin/env python3
"""Apply a seeded change to /repo, run the given checks (quick tier), undo the change.
usage: tools/seedtest.py <patch.diff> [Cxx ...]      (default: all registered checks)
Prints one line per check: DETECTED (VIOLATION line) / missed. /repo is restored afterwards."""
import json, os, subprocess, sys
V = os.path.dirname(os.path.dirname(os.path.abspath(__file__)))
patch = os.path.abspath(sys.argv[1])
REPO = os.environ.get("VERIF_REPO", "/repo")      # a scratch copy of the repository may be used instead of /repo
props = sys.argv[2:] or [c["property_id"] for c in json.load(open(os.path.join(V, "MANIFEST.json")))["checks"]]
st = subprocess.run(["git", "-C", REPO, "status", "--porcelain"], capture_output=True, text=True).stdout.strip()
if st:
    sys.exit("refusing: /repo is not clean:\n" + st)
r = subprocess.run(["git", "-C", REPO, "apply", patch], capture_output=True, text=True)
if r.returncode != 0:
    sys.exit("patch does not apply: " + r.stderr)
res = {}
try:
    for p in props:
        q = subprocess.run([os.path.join(V, "check"), p, "--tier", os.environ.get("VERIF_TIER", "quick")], cwd=V, capture_output=True, text=True, timeout=3600)
        lines = [l for l in q.stdout.splitlines() if l.startswith("VIOLATION")]
        res[p] = lines
        print("%s  %s  %s" % (p, "DETECTED" if lines else "missed  ", "; ".join(l.split("replay=")[-1] for l in lines)[:200]), flush=True)
finally:
    subprocess.run(["git", "-C", REPO, "apply", "-R", patch], check=False)
    subprocess.run(["git", "-C", REPO, "checkout", "--", "."], check=False)
    st = subprocess.run(["git", "-C", REPO, "status", "--porcelain"], capture_output=True, text=True).stdout.strip()
    print("repo restored:", "clean" if not st else "NOT CLEAN: " + st)
    # bring the tools and the regenerated facts back in sync with the restored tree
    sys.path.insert(0, V)
    from vlib import core
    try:
        core.build_tools(); core.gen_facts()
    except Exception as e:
        print("resync failed:", e)
print(json.dumps({p: bool(v) for p, v in res.items()}))
