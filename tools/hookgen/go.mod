module verif/hookgen

go 1.21
