#!/bin/bash
# Diagnostic (not a registered check): which statements of gontainer's own packages do the quick checks execute?
# `go build -cover` ignores -overlay, so this works on a scratch COPY of the repository (hook files are written
# into the copy, never into /repo).  usage: tools/coverage.sh [tier] ; prints per-function coverage below 100 %.
set -u
V="$(cd "$(dirname "$0")/.." && pwd)"
TIER="${1:-quick}"
W="$(mktemp -d /tmp/verif-cov-XXXXXX)"
trap 'rm -rf "$W"' EXIT
rsync -a --exclude .git /repo/ "$W/repo/"
mkdir -p "$W/cov"
export VERIF_REPO="$W/repo" VERIF_COVER=1 GOCOVERDIR="$W/cov"
export GOFLAGS=-mod=mod GOPROXY=off GOSUMDB=off GOTOOLCHAIN=local
cd "$V"
for p in C01 C02 C03 C04 C05 C06 C07 C08 C09 C10 C11 C12 C13 C14 C15 C16 C17 C18 C19 C20; do
  ./check $p --tier "$TIER" 2>&1 | tail -1
done
go tool covdata textfmt -i="$W/cov" -o "$W/cov.txt"
( cd "$W/repo" && go tool cover -func="$W/cov.txt" ) | sed "s#github.com/gontainer/gontainer/##" | grep -v "100.0%" > "$V/.cache/coverage-$TIER.txt"
tail -1 "$V/.cache/coverage-$TIER.txt"
# uncovered blocks (file:line ranges) for inspection
awk 'NR>1 && $NF==0 {print $1}' "$W/cov.txt" | sed "s#github.com/gontainer/gontainer/##" | sort -u > "$V/.cache/uncovered-$TIER.txt"
wc -l "$V/.cache/uncovered-$TIER.txt"
unset VERIF_REPO VERIF_COVER GOCOVERDIR
# leave the normal tools and facts in place again
python3 - <<'EOF'
import sys
sys.path.insert(0, ".")
from vlib import core
core.build_tools(); core.gen_facts()
EOF
