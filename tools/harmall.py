#!/usr/bin/env python3
"""Run every stored behaviour-preserving patch (harmless/*/patch.diff) against all checks: none of them may raise an alarm
(the recorded exceptions are listed in DESIGN.md §15). Uses a scratch worktree of /repo outside /repo and /verif.
usage: tools/harmall.py [name-prefix]"""
import glob, json, os, subprocess, sys, tempfile
V = os.path.dirname(os.path.dirname(os.path.abspath(__file__)))
props = [c["property_id"] for c in json.load(open(os.path.join(V, "MANIFEST.json")))["checks"]]
wt = tempfile.mkdtemp(prefix="verif-harm-")
os.rmdir(wt)
subprocess.run(["git", "-C", "/repo", "worktree", "add", "--detach", wt, "HEAD"], check=True, capture_output=True)
bad = 0
try:
    for d in sorted(glob.glob(os.path.join(V, "harmless", (sys.argv[1] if len(sys.argv) > 1 else "") + "*"))):
        subprocess.run(["git", "checkout", "--", "."], cwd=wt); subprocess.run(["git", "clean", "-fdq"], cwd=wt)
        if subprocess.run(["git", "apply", os.path.join(d, "patch.diff")], cwd=wt).returncode != 0:
            print(os.path.basename(d), "patch does not apply"); continue
        alarms = []
        for p in props:
            q = subprocess.run([os.path.join(V, "check"), p, "--tier", "quick"], cwd=V, env=dict(os.environ, VERIF_REPO=wt), capture_output=True, text=True)
            if q.returncode != 0 or "VIOLATION" in q.stdout:
                alarms.append(p)
        print(os.path.basename(d), "quiet" if not alarms else "ALARM " + " ".join(alarms), flush=True)
        bad += bool(alarms)
finally:
    subprocess.run(["git", "-C", "/repo", "worktree", "remove", "--force", wt])
print("patches with alarms:", bad)
