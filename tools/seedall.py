#!/usr/bin/env python3
"""Regression over every stored seed: apply it to /repo, run the check of the property it breaks (quick tier),
undo; report seeds that are no longer detected.  usage: tools/seedall.py [prefix …]"""
import json, os, subprocess, sys
V = os.path.dirname(os.path.dirname(os.path.abspath(__file__)))
sel = sys.argv[1:]
missed, ok = [], 0
for d in sorted(os.listdir(os.path.join(V, "seeded"))):
    if sel and not any(d.startswith(s) for s in sel):
        continue
    meta = json.load(open(os.path.join(V, "seeded", d, "meta.json")))
    prop = meta.get("breaks_property") or ""
    import re
    props = [prop] if re.fullmatch(r"C\d\d", prop) else list(meta.get("detected_by") or [])[:1]
    q = subprocess.run([os.path.join(V, "tools", "seedtest.py"), os.path.join(V, "seeded", d, "patch.diff")] + props,
                       cwd=V, capture_output=True, text=True, timeout=7200)
    try:
        res = json.loads(q.stdout.strip().splitlines()[-1])
    except Exception:
        res = {"error": (q.stdout + q.stderr)[-300:]}
    hit = any(v is True for v in res.values())
    print(d, res, flush=True)
    ok += hit
    meta["regression_quick_tier"] = res
    json.dump(meta, open(os.path.join(V, "seeded", d, "meta.json"), "w"), indent=1)
    if not hit:
        missed.append(d)
print("detected %d, missed %d: %s" % (ok, len(missed), missed))
