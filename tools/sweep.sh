#!/bin/bash
# unchanged-tree sweep: every check at the given tier for several seeds; prints anything that is not OK
# usage: tools/sweep.sh [tier] [seed…]
cd "$(dirname "$0")/.."
TIER="${1:-quick}"; shift
SEEDS="${@:-2 3 4 5 6}"
bad=0
for s in $SEEDS; do
  for p in C01 C02 C03 C04 C05 C06 C07 C08 C09 C10 C11 C12 C13 C14 C15 C16 C17 C18 C19 C20; do
    out=$(VERIF_SEED=$s ./check $p --tier "$TIER" 2>&1)
    if ! echo "$out" | tail -1 | grep -q "^OK "; then echo "seed=$s $p: $(echo "$out" | grep -v KNOWN-FINDING | tail -3)"; bad=$((bad+1)); fi
  done
  echo "seed $s done (not-OK so far: $bad)"
done
# leave the evidence of seed 1 in place
for p in C01 C02 C03 C04 C05 C06 C07 C08 C09 C10 C11 C12 C13 C14 C15 C16 C17 C18 C19 C20; do VERIF_SEED=1 ./check $p --tier quick >/dev/null 2>&1; done
echo "sweep finished: $bad not OK"
