// sites: typed inventory of /repo's own non-test code (stdlib go/types with the source importer).
// The facts are CLASSIFIED, not located: a construct that is guarded in a recognisable way (an index by the key of a
// `range` over the same slice, a sort callback, a constant index under a length check, a map range that only collects
// keys which are then sorted, …) is counted under its class; only constructs the tool cannot classify are listed by
// key (package.function: construct). Moving, renaming or restructuring guarded code therefore changes nothing, while a
// new unguarded construct, a raw range over a map, a non-plain comparator, recursion or an ambient call is a new fact.
// usage (cwd = /repo): sites <outdir>   → writes <outdir>/Sites.lean
package main

import (
	"fmt"
	"go/ast"
	"go/constant"
	"go/importer"
	"go/parser"
	"go/printer"
	"go/token"
	"go/types"
	"os"
	"path/filepath"
	"regexp"
	"sort"
	"strconv"
	"strings"
)

var fset = token.NewFileSet()

func exprStr(e ast.Node) string {
	var b strings.Builder
	_ = printer.Fprint(&b, fset, e)
	return strings.Join(strings.Fields(b.String()), " ")
}

// keyStr prints an expression for use in a site key: local variables, parameters and receivers are numbered in order of
// appearance ($1, $2, …), so renaming one does not change the key; fields, functions, types and packages keep their names
func keyStr(info *types.Info, e ast.Node) string {
	s := exprStr(e)
	var names []string
	seen := map[string]bool{}
	ast.Inspect(e, func(n ast.Node) bool {
		id, ok := n.(*ast.Ident)
		if !ok {
			return true
		}
		v, ok := info.Uses[id].(*types.Var)
		if !ok || v.IsField() || v.Parent() == nil || v.Pkg() == nil || v.Parent() == v.Pkg().Scope() {
			return true
		}
		if !seen[id.Name] {
			seen[id.Name] = true
			names = append(names, id.Name)
		}
		return true
	})
	for k, nm := range names {
		re := regexp.MustCompile(`(^|[^.\w$])` + regexp.QuoteMeta(nm) + `\b`)
		s = re.ReplaceAllString(s, "${1}$$"+strconv.Itoa(k+1))
	}
	return s
}

// modFunc: the module-relative full name of a function of this module ("" for anything else). Packages checked from source
// carry their directory as path, packages seen through an import carry the module path: both are reduced to the directory.
func modFunc(f *types.Func) string {
	if f == nil || f.Pkg() == nil {
		return ""
	}
	p := f.Pkg().Path()
	const mod = "github.com/gontainer/gontainer"
	if p != mod && !strings.HasPrefix(p, mod+"/") && !strings.HasPrefix(p, "internal/") && p != "." {
		return ""
	}
	n := strings.ReplaceAll(f.FullName(), mod+"/", "")
	return strings.ReplaceAll(n, mod+".", "./")
}

func leanStr(s string) string {
	s = strings.ReplaceAll(s, `\`, `\\`)
	s = strings.ReplaceAll(s, `"`, `\"`)
	s = strings.ReplaceAll(s, "\n", `\n`)
	s = strings.ReplaceAll(s, "\t", `\t`)
	return `"` + s + `"`
}

func leanList(l []string) string {
	q := make([]string, len(l))
	for i, s := range l {
		q[i] = leanStr(s)
	}
	return "[" + strings.Join(q, ", ") + "]"
}

// ---------------------------------------------------------------------------------------------------------------
// guards

type walker struct {
	info    *types.Info
	fn      string
	fd      *ast.FuncDecl
	stack   []ast.Node
	aliases map[string]ast.Expr // locals defined once as length arithmetic (`n := len(x)`, `last := len(x) - 1`)
	pkgInits map[string]ast.Expr // initialisers of the package-level variables of this package
}

// collectAliases: single-assignment locals whose definition is length arithmetic
func collectAliases(fd *ast.FuncDecl) map[string]ast.Expr {
	defs := map[string]ast.Expr{}
	writes := map[string]int{}
	var pure func(e ast.Expr) bool
	pure = func(e ast.Expr) bool {
		switch x := e.(type) {
		case *ast.BasicLit:
			return x.Kind == token.INT
		case *ast.Ident:
			return true
		case *ast.ParenExpr:
			return pure(x.X)
		case *ast.BinaryExpr:
			return (x.Op == token.ADD || x.Op == token.SUB) && pure(x.X) && pure(x.Y)
		case *ast.CallExpr:
			id, ok := x.Fun.(*ast.Ident)
			return ok && id.Name == "len" && len(x.Args) == 1
		}
		return false
	}
	ast.Inspect(fd.Body, func(n ast.Node) bool {
		switch x := n.(type) {
		case *ast.AssignStmt:
			for i, l := range x.Lhs {
				if id, ok := l.(*ast.Ident); ok {
					writes[id.Name]++
					if x.Tok == token.DEFINE && len(x.Lhs) == len(x.Rhs) && pure(x.Rhs[i]) {
						if _, isLit := x.Rhs[i].(*ast.BasicLit); !isLit {
							if _, isId := x.Rhs[i].(*ast.Ident); !isId {
								defs[id.Name] = x.Rhs[i]
							}
						}
					}
				}
			}
		case *ast.ValueSpec:
			for i, id := range x.Names {
				writes[id.Name]++
				if len(x.Values) == len(x.Names) && pure(x.Values[i]) {
					if _, isLit := x.Values[i].(*ast.BasicLit); !isLit {
						if _, isId := x.Values[i].(*ast.Ident); !isId {
							defs[id.Name] = x.Values[i]
						}
					}
				}
			}
		case *ast.IncDecStmt:
			if id, ok := x.X.(*ast.Ident); ok {
				writes[id.Name] += 2
			}
		case *ast.UnaryExpr:
			if x.Op == token.AND {
				if id, ok := x.X.(*ast.Ident); ok {
					writes[id.Name] += 2
				}
			}
		case *ast.RangeStmt:
			for _, e := range []ast.Expr{x.Key, x.Value} {
				if id, ok := e.(*ast.Ident); ok {
					writes[id.Name] += 2
				}
			}
		}
		return true
	})
	for n := range defs {
		if writes[n] != 1 {
			delete(defs, n)
		}
	}
	return defs
}

// lenExpr: is e ≡ len(base) + d (through aliases) ?
func (w *walker) lenExpr(e ast.Expr, base string, depth int) (int, bool) {
	if depth > 4 {
		return 0, false
	}
	switch x := e.(type) {
	case *ast.ParenExpr:
		return w.lenExpr(x.X, base, depth)
	case *ast.CallExpr:
		if lenOf(x, base) {
			return 0, true
		}
	case *ast.Ident:
		if d, ok := w.aliases[x.Name]; ok {
			return w.lenExpr(d, base, depth+1)
		}
	case *ast.BinaryExpr:
		if k, ok := intLit(x.Y); ok && (x.Op == token.ADD || x.Op == token.SUB) {
			if d, ok := w.lenExpr(x.X, base, depth); ok {
				if x.Op == token.ADD {
					return d + k, true
				}
				return d - k, true
			}
		}
	}
	return 0, false
}

func intLit(e ast.Expr) (int, bool) {
	if bl, ok := e.(*ast.BasicLit); ok && bl.Kind == token.INT {
		n, err := strconv.Atoi(bl.Value)
		return n, err == nil
	}
	return 0, false
}

// lenOf reports whether e is `len(base)`
func lenOf(e ast.Expr, base string) bool {
	c, ok := e.(*ast.CallExpr)
	if !ok || len(c.Args) != 1 {
		return false
	}
	id, ok := c.Fun.(*ast.Ident)
	return ok && id.Name == "len" && exprStr(c.Args[0]) == base
}

// impliesLenGreater: does `cond` being TRUE imply len(base) > c ?
func (w *walker) impliesLenGreater(cond ast.Expr, base string, c int) bool {
	switch x := cond.(type) {
	case *ast.ParenExpr:
		return w.impliesLenGreater(x.X, base, c)
	case *ast.BinaryExpr:
		if x.Op == token.LAND {
			return w.impliesLenGreater(x.X, base, c) || w.impliesLenGreater(x.Y, base, c)
		}
		if x.Op == token.NEQ && c == 0 && exprStr(x.X) == base && exprStr(x.Y) == `""` {
			return true // base != ""
		}
		if d, ok := w.lenExpr(x.X, base, 0); ok {
			if k, ok := intLit(x.Y); ok {
				k -= d // len(base) + d <op> k  ⇔  len(base) <op> k - d
				switch x.Op {
				case token.GTR:
					return k >= c
				case token.GEQ, token.EQL:
					return k > c
				case token.NEQ:
					return k == 0 && c == 0
				}
			}
		}
	}
	return false
}

// refutesLenGreater: does `cond` being FALSE imply len(base) > c ?  (cond is a disjunction that covers len(base) <= c)
func (w *walker) refutesLenGreater(cond ast.Expr, base string, c int) bool {
	switch x := cond.(type) {
	case *ast.ParenExpr:
		return w.refutesLenGreater(x.X, base, c)
	case *ast.BinaryExpr:
		if x.Op == token.LOR {
			return w.refutesLenGreater(x.X, base, c) || w.refutesLenGreater(x.Y, base, c)
		}
		if x.Op == token.EQL && c == 0 && exprStr(x.X) == base && exprStr(x.Y) == `""` {
			return true // not (base == "")
		}
		if d, ok := w.lenExpr(x.X, base, 0); ok {
			if k, ok := intLit(x.Y); ok {
				k -= d
				switch x.Op {
				case token.EQL:
					return k == 0 && c == 0
				case token.LSS:
					return k > c
				case token.LEQ:
					return k >= c
				}
			}
		}
	}
	return false
}

func terminates(b *ast.BlockStmt) bool {
	if b == nil || len(b.List) == 0 {
		return false
	}
	switch s := b.List[len(b.List)-1].(type) {
	case *ast.ReturnStmt:
		return true
	case *ast.BranchStmt:
		return s.Tok == token.CONTINUE || s.Tok == token.BREAK
	case *ast.ExprStmt:
		if c, ok := s.X.(*ast.CallExpr); ok {
			if id, ok := c.Fun.(*ast.Ident); ok && id.Name == "panic" {
				return true
			}
		}
	}
	return false
}

// lenGuarded: is the node on top of the stack dominated by a check that makes len(base) > c ?
func (w *walker) lenGuarded(base string, c int) bool {
	for i := len(w.stack) - 2; i >= 0; i-- {
		child := w.stack[i+1]
		switch p := w.stack[i].(type) {
		case *ast.IfStmt:
			if p.Body == child && w.impliesLenGreater(p.Cond, base, c) {
				return true
			}
			if p.Else == child && w.refutesLenGreater(p.Cond, base, c) {
				return true
			}
		case *ast.BlockStmt:
			for _, s := range p.List {
				if s == child {
					break
				}
				if is, ok := s.(*ast.IfStmt); ok && is.Init == nil && terminates(is.Body) && w.refutesLenGreater(is.Cond, base, c) {
					return true
				}
			}
		case *ast.CaseClause:
			// `switch len(base) { case k: … }`
			if i > 1 {
				if sw, ok := w.stack[i-2].(*ast.SwitchStmt); ok && sw.Tag != nil && len(p.List) == 1 {
					if d, ok := w.lenExpr(sw.Tag, base, 0); ok {
						if k, ok := intLit(p.List[0]); ok && k-d > c {
							return true
						}
					}
				}
			}
		case *ast.BinaryExpr:
			// short-circuit evaluation: the right operand of `&&` runs only when the left one held, of `||` only when it did not
			if p.Y == child && p.Op == token.LAND && w.impliesLenGreater(p.X, base, c) {
				return true
			}
			if p.Y == child && p.Op == token.LOR && w.refutesLenGreater(p.X, base, c) {
				return true
			}
		case *ast.FuncLit:
			return false
		}
	}
	return false
}

// impliesAtLeastLenOf: does `cond` being TRUE imply len(base) >= len(y) ?
func impliesAtLeastLenOf(cond ast.Expr, base, y string) bool {
	switch x := cond.(type) {
	case *ast.ParenExpr:
		return impliesAtLeastLenOf(x.X, base, y)
	case *ast.BinaryExpr:
		switch x.Op {
		case token.LAND:
			return impliesAtLeastLenOf(x.X, base, y) || impliesAtLeastLenOf(x.Y, base, y)
		case token.LOR:
			return impliesAtLeastLenOf(x.X, base, y) && impliesAtLeastLenOf(x.Y, base, y)
		case token.EQL:
			l, r := exprStr(x.X), exprStr(x.Y)
			return (l == base && r == y) || (l == y && r == base)
		}
	case *ast.CallExpr:
		if f := exprStr(x.Fun); (f == "strings.HasPrefix" || f == "strings.HasSuffix") && len(x.Args) == 2 && exprStr(x.Args[0]) == base {
			if exprStr(x.Args[1]) == y {
				return true
			}
			if be, ok := x.Args[1].(*ast.BinaryExpr); ok && be.Op == token.ADD && (exprStr(be.X) == y || exprStr(be.Y) == y) {
				return true
			}
		}
	}
	return false
}

// prefixGuarded: is the node on top of the stack inside the body of an `if` (or to the right of an `&&`) whose condition implies
// len(base) >= len(y) ?
func (w *walker) prefixGuarded(base, y string) bool {
	for i := len(w.stack) - 2; i >= 0; i-- {
		child := w.stack[i+1]
		switch p := w.stack[i].(type) {
		case *ast.IfStmt:
			if p.Body == child && impliesAtLeastLenOf(p.Cond, base, y) {
				return true
			}
		case *ast.BinaryExpr:
			if p.Y == child && p.Op == token.LAND && impliesAtLeastLenOf(p.X, base, y) {
				return true
			}
		case *ast.FuncLit:
			return false
		}
	}
	return false
}

// madeWithLen: was `base` created as make(T, len(of)) somewhere in this function ?
func (w *walker) madeWithLen(base, of string) bool {
	found := false
	ast.Inspect(w.fd.Body, func(n ast.Node) bool {
		as, ok := n.(*ast.AssignStmt)
		if !ok || len(as.Lhs) != 1 || len(as.Rhs) != 1 || exprStr(as.Lhs[0]) != base {
			return true
		}
		c, ok := as.Rhs[0].(*ast.CallExpr)
		if !ok || len(c.Args) != 2 {
			return true
		}
		if id, ok := c.Fun.(*ast.Ident); ok && id.Name == "make" {
			if d, ok := w.lenExpr(c.Args[1], of, 0); ok && d >= 0 {
				found = true
			}
		}
		return true
	})
	ast.Inspect(w.fd.Body, func(n ast.Node) bool {
		vs, ok := n.(*ast.ValueSpec)
		if !ok || len(vs.Names) != len(vs.Values) {
			return true
		}
		for i, id := range vs.Names {
			if id.Name != base {
				continue
			}
			if c, ok := vs.Values[i].(*ast.CallExpr); ok && len(c.Args) == 2 {
				if f, ok := c.Fun.(*ast.Ident); ok && f.Name == "make" {
					if d, ok := w.lenExpr(c.Args[1], of, 0); ok && d >= 0 {
						found = true
					}
				}
			}
		}
		return true
	})
	return found
}

func isSortCall(c *ast.CallExpr) (string, bool) {
	sel, ok := c.Fun.(*ast.SelectorExpr)
	if !ok {
		return "", false
	}
	id, ok := sel.X.(*ast.Ident)
	if !ok || (id.Name != "sort" && id.Name != "slices") {
		return "", false
	}
	return id.Name + "." + sel.Sel.Name, true
}

// indexClass: the guard class of x[idx], or "" when none is recognised
// singleDef: the one statement `name := <expr>` of this function that defines the local `name` (nil when it is assigned more than once)
func (w *walker) singleDef(name string) ast.Expr {
	var def ast.Expr
	n := 0
	ast.Inspect(w.fd.Body, func(nd ast.Node) bool {
		as, ok := nd.(*ast.AssignStmt)
		if !ok {
			return true
		}
		for k, l := range as.Lhs {
			if id, ok := l.(*ast.Ident); ok && id.Name == name {
				n++
				if as.Tok == token.DEFINE && len(as.Lhs) == len(as.Rhs) {
					def = as.Rhs[k]
				} else {
					def = nil
					n += 2
				}
			}
		}
		return true
	})
	if n != 1 {
		return nil
	}
	return def
}

// condGuarded: is the node on top of the stack dominated by `holds` (body of an if whose condition satisfies it, right operand
// of &&) or by the refutation of `fails` (after a terminating `if fails`, else-branch, right operand of ||) ?
func (w *walker) condGuarded(holds, fails func(ast.Expr) bool) bool {
	var conj func(e ast.Expr, f func(ast.Expr) bool, op token.Token) bool
	conj = func(e ast.Expr, f func(ast.Expr) bool, op token.Token) bool {
		switch x := e.(type) {
		case *ast.ParenExpr:
			return conj(x.X, f, op)
		case *ast.BinaryExpr:
			if x.Op == op {
				return conj(x.X, f, op) || conj(x.Y, f, op)
			}
		}
		return f(e)
	}
	for i := len(w.stack) - 2; i >= 0; i-- {
		child := w.stack[i+1]
		switch p := w.stack[i].(type) {
		case *ast.IfStmt:
			if p.Body == child && conj(p.Cond, holds, token.LAND) {
				return true
			}
			if p.Else == child && conj(p.Cond, fails, token.LOR) {
				return true
			}
		case *ast.BlockStmt:
			for _, s := range p.List {
				if s == child {
					break
				}
				if is, ok := s.(*ast.IfStmt); ok && terminates(is.Body) && conj(is.Cond, fails, token.LOR) {
					return true
				}
			}
		case *ast.BinaryExpr:
			if p.Y == child && p.Op == token.LAND && conj(p.X, holds, token.LAND) {
				return true
			}
			if p.Y == child && p.Op == token.LOR && conj(p.X, fails, token.LOR) {
				return true
			}
		case *ast.FuncLit:
			return false
		}
	}
	return false
}

// boundCheckedClass: `x[i]` with i of an UNSIGNED integer type, under `i < len(x)` / `int(i) < len(x)` (if-body, right operand
// of &&, or after a terminating `if i >= len(x)`)
func (w *walker) boundCheckedClass(x *ast.IndexExpr, base string) string {
	tv, ok := w.info.Types[x.Index]
	if !ok {
		return ""
	}
	bt, ok := tv.Type.Underlying().(*types.Basic)
	if !ok || bt.Info()&types.IsUnsigned == 0 {
		return ""
	}
	idx := exprStr(x.Index)
	same := func(e ast.Expr) bool {
		s := exprStr(e)
		return s == idx || s == "int("+idx+")"
	}
	cmp := func(op token.Token) func(ast.Expr) bool {
		return func(e ast.Expr) bool {
			be, ok := e.(*ast.BinaryExpr)
			return ok && be.Op == op && same(be.X) && lenOf(be.Y, base)
		}
	}
	if w.condGuarded(cmp(token.LSS), cmp(token.GEQ)) {
		return "unsigned index under a bound check against the length of the same slice"
	}
	return ""
}

// searchIndexClass: `x[i]` where `i := slices.Index…(x, …)` (or strings.Index… for a string) and i is known to be non-negative
func (w *walker) searchIndexClass(x *ast.IndexExpr, id *ast.Ident, base string) string {
	call, ok := w.singleDef(id.Name).(*ast.CallExpr)
	if !ok || len(call.Args) < 2 || exprStr(call.Args[0]) != base {
		return ""
	}
	switch exprStr(call.Fun) {
	case "slices.Index", "slices.IndexFunc", "strings.Index", "strings.IndexByte", "strings.IndexRune", "strings.IndexAny", "strings.IndexFunc",
		"strings.LastIndex", "strings.LastIndexByte", "strings.LastIndexAny", "strings.LastIndexFunc":
	default:
		return ""
	}
	cmp := func(e ast.Expr, ops map[token.Token][]int) bool {
		be, ok := e.(*ast.BinaryExpr)
		if !ok || exprStr(be.X) != id.Name {
			return false
		}
		k, ok := intLit(be.Y)
		if !ok {
			if u, isU := be.Y.(*ast.UnaryExpr); isU && u.Op == token.SUB {
				if v, ok2 := intLit(u.X); ok2 {
					k, ok = -v, true
				}
			}
		}
		if !ok {
			return false
		}
		for _, want := range ops[be.Op] {
			if want == k {
				return true
			}
		}
		return false
	}
	holds := func(e ast.Expr) bool { return cmp(e, map[token.Token][]int{token.GEQ: {0}, token.GTR: {-1}, token.NEQ: {-1}}) }
	fails := func(e ast.Expr) bool { return cmp(e, map[token.Token][]int{token.LSS: {0}, token.LEQ: {-1}, token.EQL: {-1}}) }
	if w.condGuarded(holds, fails) {
		return "index found by a search in the same slice, known to be non-negative"
	}
	return ""
}

// subexpIndexClass: `m[v]` where `m := re.FindStringSubmatch(…)` is known to be non-nil and `v` is a package-level variable
// initialised with `re.SubexpIndex("name")` of the SAME expression, whose constant pattern declares the group `(?P<name>`
func (w *walker) subexpIndexClass(x *ast.IndexExpr, id *ast.Ident, base string) string {
	v, ok := w.info.Uses[id].(*types.Var)
	if !ok || v.Pkg() == nil || v.Parent() != v.Pkg().Scope() {
		return ""
	}
	init := w.pkgInits[v.Name()]
	ic, ok := init.(*ast.CallExpr)
	if !ok || len(ic.Args) != 1 {
		return ""
	}
	isel, ok := ic.Fun.(*ast.SelectorExpr)
	if !ok || isel.Sel.Name != "SubexpIndex" {
		return ""
	}
	re := exprStr(isel.X)
	name, err := strconv.Unquote(exprStr(ic.Args[0]))
	if err != nil {
		return ""
	}
	mdef, ok := w.singleDef(base).(*ast.CallExpr)
	if !ok {
		return ""
	}
	msel, ok := mdef.Fun.(*ast.SelectorExpr)
	if !ok || msel.Sel.Name != "FindStringSubmatch" || exprStr(msel.X) != re {
		return ""
	}
	// the pattern of `re`: a constant string somewhere in its initialiser
	declares := false
	if rinit, ok := w.pkgInits[re]; ok {
		ast.Inspect(rinit, func(n ast.Node) bool {
			if e, ok := n.(ast.Expr); ok {
				if tv, ok := w.info.Types[e]; ok && tv.Value != nil && tv.Value.Kind() == constant.String {
					if strings.Contains(constant.StringVal(tv.Value), "(?P<"+name+">") {
						declares = true
					}
				}
			}
			return true
		})
	}
	if !declares {
		return ""
	}
	isNil := func(op token.Token) func(ast.Expr) bool {
		return func(e ast.Expr) bool {
			be, ok := e.(*ast.BinaryExpr)
			return ok && be.Op == op && exprStr(be.X) == base && exprStr(be.Y) == "nil"
		}
	}
	if w.condGuarded(isNil(token.NEQ), isNil(token.EQL)) {
		return "index by SubexpIndex of a declared group into the non-nil submatch of the same expression"
	}
	return ""
}

func (w *walker) indexClass(x *ast.IndexExpr) string {
	base := exprStr(x.X)
	if c, ok := intLit(x.Index); ok {
		if w.lenGuarded(base, c) {
			return "constant index under a length check"
		}
		return ""
	}
	// len(base) - k, directly or through a local: needs len(base) >= k
	if d, ok := w.lenExpr(x.Index, base, 0); ok {
		if d < 0 && w.lenGuarded(base, -d-1) {
			return "index from the end under a length check"
		}
		return ""
	}
	if c := w.boundCheckedClass(x, base); c != "" {
		return c
	}
	id, ok := x.Index.(*ast.Ident)
	if !ok {
		return ""
	}
	if c := w.searchIndexClass(x, id, base); c != "" {
		return c
	}
	if c := w.subexpIndexClass(x, id, base); c != "" {
		return c
	}
	for i := len(w.stack) - 2; i >= 0; i-- {
		switch p := w.stack[i].(type) {
		case *ast.RangeStmt:
			if k, ok := p.Key.(*ast.Ident); ok && k.Name == id.Name {
				r := exprStr(p.X)
				if r == base {
					return "index by the key of a range over the same slice"
				}
				if w.madeWithLen(base, r) {
					return "index by a range key into a slice made with that length"
				}
				return ""
			}
		case *ast.ForStmt:
			if as, ok := p.Init.(*ast.AssignStmt); ok && len(as.Lhs) == 1 && exprStr(as.Lhs[0]) == id.Name {
				if be, ok := p.Cond.(*ast.BinaryExpr); ok && be.Op == token.LSS && exprStr(be.X) == id.Name {
					if d, ok := w.lenExpr(be.Y, base, 0); ok && d <= 0 {
						return "index by the counter of a loop bounded by len of the same slice"
					}
					// the bound is the length of another slice and `base` was made with that length
					var of string
					ast.Inspect(be.Y, func(n ast.Node) bool {
						if c, ok := n.(*ast.CallExpr); ok && len(c.Args) == 1 {
							if f, ok := c.Fun.(*ast.Ident); ok && f.Name == "len" {
								of = exprStr(c.Args[0])
							}
						}
						return true
					})
					if of == "" {
						if a, ok := be.Y.(*ast.Ident); ok {
							if def, ok := w.aliases[a.Name]; ok {
								ast.Inspect(def, func(n ast.Node) bool {
									if c, ok := n.(*ast.CallExpr); ok && len(c.Args) == 1 {
										if f, ok := c.Fun.(*ast.Ident); ok && f.Name == "len" {
											of = exprStr(c.Args[0])
										}
									}
									return true
								})
							}
						}
					}
					if of != "" {
						if d, ok := w.lenExpr(be.Y, of, 0); ok && d <= 0 && w.madeWithLen(base, of) {
							return "index by a loop counter into a slice made with that length"
						}
					}
				}
				return ""
			}
		case *ast.FuncLit:
			// a comparator passed to a sort function over the same slice
			if i > 0 {
				if call, ok := w.stack[i-1].(*ast.CallExpr); ok {
					if _, ok := isSortCall(call); ok && len(call.Args) >= 2 && exprStr(call.Args[0]) == base {
						for _, f := range p.Type.Params.List {
							for _, n := range f.Names {
								if n.Name == id.Name {
									return "index by a sort callback argument"
								}
							}
						}
					}
				}
			}
			return ""
		}
	}
	return ""
}

func (w *walker) sliceClass(x *ast.SliceExpr) string {
	if x.Max != nil {
		return ""
	}
	if x.High != nil {
		// x[c : len(x)-k]: needs c <= len(x)-k
		base := exprStr(x.X)
		c := 0
		if x.Low != nil {
			k, ok := intLit(x.Low)
			if !ok {
				return ""
			}
			c = k
		}
		if d, ok := w.lenExpr(x.High, base, 0); ok && d <= 0 {
			if c+(-d) == 0 || w.lenGuarded(base, c-d-1) {
				return "constant slice bounds under a length check"
			}
		}
		return ""
	}
	if x.Low == nil {
		return "full slice"
	}
	if c, ok := intLit(x.Low); ok {
		if c == 0 || w.lenGuarded(exprStr(x.X), c-1) {
			return "constant slice bound under a length check"
		}
	}
	// x[len(y):] under `x == y`, `strings.HasPrefix(x, y)` or `strings.HasPrefix(x, y+…)` (or a disjunction of such): len(x) >= len(y)
	if call, ok := x.Low.(*ast.CallExpr); ok && len(call.Args) == 1 && exprStr(call.Fun) == "len" {
		if w.prefixGuarded(exprStr(x.X), exprStr(call.Args[0])) {
			return "slice past a prefix under an equality or HasPrefix check"
		}
	}
	// x[strings.LastIndexByte(x, c)+1:] and the like: the index is in [-1, len(x)-1], one past it is in [0, len(x)]
	if be, ok := x.Low.(*ast.BinaryExpr); ok && be.Op == token.ADD {
		if k, ok := intLit(be.Y); ok && k == 1 {
			if call, ok := be.X.(*ast.CallExpr); ok && len(call.Args) == 2 && exprStr(call.Args[0]) == exprStr(x.X) {
				switch exprStr(call.Fun) {
				case "strings.LastIndexByte", "strings.IndexByte", "strings.LastIndex", "strings.Index", "strings.IndexRune", "strings.LastIndexAny", "strings.IndexAny":
					if tv, ok := w.info.Types[x.X]; ok && isStringLike(tv.Type) {
						return "slice from one past a strings index of the same string"
					}
				}
			}
		}
	}
	return ""
}

// ---------------------------------------------------------------------------------------------------------------
// ordering classes of sort calls

// isStringLike: string, a named string type, or a type parameter all of whose terms are (~)string
func isStringLike(t types.Type) bool {
	if tp, ok := t.(*types.TypeParam); ok {
		iface, ok := tp.Constraint().Underlying().(*types.Interface)
		if !ok || iface.NumEmbeddeds() == 0 {
			return false
		}
		for i := 0; i < iface.NumEmbeddeds(); i++ {
			switch e := iface.EmbeddedType(i).(type) {
			case *types.Union:
				for j := 0; j < e.Len(); j++ {
					if !isStringLike(e.Term(j).Type()) {
						return false
					}
				}
			default:
				if !isStringLike(e) {
					return false
				}
			}
		}
		return true
	}
	b, ok := t.Underlying().(*types.Basic)
	return ok && b.Kind() == types.String
}

func sortClass(call *ast.CallExpr, name string, info *types.Info) string {
	switch name {
	case "sort.Strings", "slices.Sort":
		if len(call.Args) == 1 {
			if tv, ok := info.Types[call.Args[0]]; ok {
				if sl, ok := tv.Type.Underlying().(*types.Slice); ok && isStringLike(sl.Elem()) {
					return "ascending: the strings themselves"
				}
			}
		}
	case "sort.Slice", "sort.SliceStable":
		if len(call.Args) == 2 {
			if fl, ok := call.Args[1].(*ast.FuncLit); ok && len(fl.Body.List) == 1 && len(fl.Type.Params.List) > 0 {
				var ps []string
				for _, f := range fl.Type.Params.List {
					for _, n := range f.Names {
						ps = append(ps, n.Name)
					}
				}
				if rs, ok := fl.Body.List[0].(*ast.ReturnStmt); ok && len(rs.Results) == 1 && len(ps) == 2 {
					if be, ok := rs.Results[0].(*ast.BinaryExpr); ok && be.Op == token.LSS {
						base := exprStr(call.Args[0])
						l, r := exprStr(be.X), exprStr(be.Y)
						pl, pr := base+"["+ps[0]+"]", base+"["+ps[1]+"]"
						if strings.HasPrefix(l, pl) && strings.HasPrefix(r, pr) && l[len(pl):] == r[len(pr):] {
							// both sides must be strings
							if tv, ok := info.Types[be.X]; ok && isStringLike(tv.Type) {
								if l[len(pl):] == "" {
									return "ascending: the strings themselves"
								}
								return "ascending: string field " + l[len(pl):]
							}
						}
					}
				}
			}
		}
	}
	return "other: " + exprStr(call)
}

// ---------------------------------------------------------------------------------------------------------------
// map ranges

// mapRangeClass: what the body of a `range` over a map does
func (w *walker) mapRangeClass(rs *ast.RangeStmt) string {
	key := ""
	if k, ok := rs.Key.(*ast.Ident); ok {
		key = k.Name
	}
	// (a) every statement stores into a map under the range key (distinct keys: order cannot matter) or assigns to a variable
	// that lives in the iteration (the range value, a variable defined in the body); `if`/`else` whose branches do nothing
	// else are allowed (the usual "merge if present, else copy"). The target map is not looked at in any other way than
	// `target[key]`, so an iteration cannot see what another one stored.
	local := map[string]bool{}
	if v, ok := rs.Value.(*ast.Ident); ok && v.Name != "_" {
		local[v.Name] = true
	}
	ast.Inspect(rs.Body, func(n ast.Node) bool {
		if as, ok := n.(*ast.AssignStmt); ok && as.Tok == token.DEFINE {
			for _, l := range as.Lhs {
				if id, ok := l.(*ast.Ident); ok {
					local[id.Name] = true
				}
			}
		}
		return true
	})
	targets := map[string]bool{}
	stores := 0
	var storesOnly func(list []ast.Stmt) bool
	storesOnly = func(list []ast.Stmt) bool {
		for _, st := range list {
			switch x := st.(type) {
			case *ast.AssignStmt:
				if x.Tok != token.ASSIGN && x.Tok != token.DEFINE {
					return false
				}
				for _, l := range x.Lhs {
					if id, ok := l.(*ast.Ident); ok && (local[id.Name] || id.Name == "_") {
						continue
					}
					ix, ok := l.(*ast.IndexExpr)
					if !ok || key == "" || exprStr(ix.Index) != key {
						return false
					}
					tv, ok := w.info.Types[ix.X]
					if !ok {
						return false
					}
					if _, isMap := tv.Type.Underlying().(*types.Map); !isMap {
						return false
					}
					targets[exprStr(ix.X)] = true
					stores++
				}
			case *ast.IfStmt:
				if x.Init != nil {
					if as, ok := x.Init.(*ast.AssignStmt); !ok || as.Tok != token.DEFINE {
						return false
					}
				}
				if !storesOnly(x.Body.List) {
					return false
				}
				switch e := x.Else.(type) {
				case nil:
				case *ast.BlockStmt:
					if !storesOnly(e.List) {
						return false
					}
				case *ast.IfStmt:
					if !storesOnly([]ast.Stmt{e}) {
						return false
					}
				default:
					return false
				}
			default:
				return false
			}
		}
		return true
	}
	if storesOnly(rs.Body.List) && stores > 0 {
		clean := true
		ast.Inspect(rs.Body, func(n ast.Node) bool {
			if ix, ok := n.(*ast.IndexExpr); ok && targets[exprStr(ix.X)] && exprStr(ix.Index) == key {
				return false // target[key]: the iteration's own entry
			}
			if e, ok := n.(ast.Expr); ok && targets[exprStr(e)] {
				clean = false
			}
			return true
		})
		if clean {
			return "stores under the range key into another map"
		}
	}
	// (b) every statement appends to ONE slice, and that slice is sorted later in the same function
	target := ""
	for _, s := range rs.Body.List {
		as, ok := s.(*ast.AssignStmt)
		if !ok || len(as.Lhs) != 1 || len(as.Rhs) != 1 {
			return ""
		}
		c, ok := as.Rhs[0].(*ast.CallExpr)
		if !ok || len(c.Args) < 2 {
			return ""
		}
		if id, ok := c.Fun.(*ast.Ident); !ok || id.Name != "append" {
			return ""
		}
		t := exprStr(as.Lhs[0])
		if exprStr(c.Args[0]) != t || (target != "" && target != t) {
			return ""
		}
		target = t
	}
	if target == "" {
		return ""
	}
	sorted := false
	after := false
	ast.Inspect(w.fd.Body, func(n ast.Node) bool {
		if n == ast.Node(rs) {
			after = true
			return false
		}
		if c, ok := n.(*ast.CallExpr); ok && after {
			if _, ok := isSortCall(c); ok && len(c.Args) >= 1 && exprStr(c.Args[0]) == target {
				sorted = true
			}
		}
		return true
	})
	if sorted {
		return "collects into a slice that is sorted afterwards"
	}
	return ""
}

// ---------------------------------------------------------------------------------------------------------------

func main() {
	out := os.Args[1]
	imp := importer.ForCompiler(fset, "source", nil)
	var dirs []string
	_ = filepath.Walk(".", func(p string, info os.FileInfo, err error) error {
		if err == nil && info.IsDir() && !strings.HasPrefix(p, ".git") && !strings.Contains(p, "testdata") && !strings.HasPrefix(filepath.Base(p), "_") {
			dirs = append(dirs, p)
		}
		return nil
	})
	sort.Strings(dirs)
	var mapRanges, panics, loops, ambient, ambientAPIs, stepNames, sorts, mapClasses []string
	guarded := map[string]int{}
	callGraph := map[string][]string{}
	var mustSites [][2]string            // (enclosing function, site key) of every Must* call
	usedFromFuncs := map[string]bool{}   // module functions referred to from a function body other than init()
	usedAtPkgLevel := map[string]bool{}  // … from a package-level variable initialiser or from init()
	for _, d := range dirs {
		pkgs, err := parser.ParseDir(fset, d, func(fi os.FileInfo) bool {
			return !strings.HasSuffix(fi.Name(), "_test.go") && !(d == "internal/gontainer" && fi.Name() == "gontainer.go")
		}, 0)
		if err != nil || len(pkgs) == 0 {
			continue
		}
		for pname, p := range pkgs {
			var files []*ast.File
			var names []string
			for n := range p.Files {
				names = append(names, n)
			}
			sort.Strings(names)
			for _, n := range names {
				files = append(files, p.Files[n])
			}
			info := &types.Info{Types: map[ast.Expr]types.TypeAndValue{}, Uses: map[*ast.Ident]types.Object{}, Defs: map[*ast.Ident]types.Object{},
				Selections: map[*ast.SelectorExpr]*types.Selection{}}
			conf := types.Config{Importer: imp, Error: func(error) {}}
			_, _ = conf.Check(d, fset, files, info)
			pkgInits := map[string]ast.Expr{}
			for _, f := range files {
				for _, decl := range f.Decls {
					if gd, ok := decl.(*ast.GenDecl); ok && gd.Tok == token.VAR {
						for _, sp := range gd.Specs {
							vs := sp.(*ast.ValueSpec)
							if len(vs.Names) == len(vs.Values) {
								for k, n := range vs.Names {
									pkgInits[n.Name] = vs.Values[k]
								}
							}
						}
					}
				}
			}
			commaOk := map[*ast.TypeAssertExpr]bool{}
			for _, f := range files {
				ast.Inspect(f, func(n ast.Node) bool {
					if as, ok := n.(*ast.AssignStmt); ok && len(as.Lhs) == 2 && len(as.Rhs) == 1 {
						if ta, ok := as.Rhs[0].(*ast.TypeAssertExpr); ok {
							commaOk[ta] = true
						}
					}
					if vs, ok := n.(*ast.ValueSpec); ok && len(vs.Names) == 2 && len(vs.Values) == 1 {
						if ta, ok := vs.Values[0].(*ast.TypeAssertExpr); ok {
							commaOk[ta] = true
						}
					}
					return true
				})
			}
			for _, f := range files {
				for _, decl := range f.Decls {
					if gd, ok := decl.(*ast.GenDecl); ok && gd.Tok == token.VAR {
						ast.Inspect(gd, func(n ast.Node) bool {
							if id, ok := n.(*ast.Ident); ok {
								if fo, ok := info.Uses[id].(*types.Func); ok && modFunc(fo) != "" {
									usedAtPkgLevel[modFunc(fo)] = true
								}
							}
							return true
						})
					}
					fd, ok := decl.(*ast.FuncDecl)
					if !ok || fd.Body == nil {
						continue
					}
					fn := pname + "." + fd.Name.Name
					if fd.Recv != nil && len(fd.Recv.List) > 0 {
						fn = pname + "." + strings.TrimPrefix(exprStr(fd.Recv.List[0].Type), "*") + "." + fd.Name.Name
					}
					self := ""
					if o, ok := info.Defs[fd.Name].(*types.Func); ok {
						self = o.FullName()
					}
					if fd.Name.Name == "Name" && fd.Recv != nil {
						ast.Inspect(fd.Body, func(n ast.Node) bool {
							if r, ok := n.(*ast.ReturnStmt); ok && len(r.Results) == 1 {
								if bl, ok := r.Results[0].(*ast.BasicLit); ok {
									stepNames = append(stepNames, strings.Trim(bl.Value, `"`))
								}
							}
							return true
						})
					}
					isInit := fd.Recv == nil && fd.Name.Name == "init"
					ast.Inspect(fd.Body, func(n ast.Node) bool {
						if id, ok := n.(*ast.Ident); ok {
							if f, ok := info.Uses[id].(*types.Func); ok && modFunc(f) != "" {
								if isInit {
									usedAtPkgLevel[modFunc(f)] = true
								} else {
									usedFromFuncs[modFunc(f)] = true
								}
							}
						}
						return true
					})
					w := &walker{info: info, fn: fn, fd: fd, aliases: collectAliases(fd), pkgInits: pkgInits}
					ast.Inspect(fd.Body, func(n ast.Node) bool {
						if n == nil {
							w.stack = w.stack[:len(w.stack)-1]
							return true
						}
						w.stack = append(w.stack, n)
						switch x := n.(type) {
						case *ast.RangeStmt:
							if tv, ok := info.Types[x.X]; ok {
								if _, isMap := tv.Type.Underlying().(*types.Map); isMap {
									if c := w.mapRangeClass(x); c != "" {
										mapClasses = append(mapClasses, c)
									} else {
										mapRanges = append(mapRanges, fn+": range "+keyStr(info, x.X))
									}
								}
							}
							loops = append(loops, "range")
						case *ast.ForStmt:
							kind := "for-cond"
							if x.Cond == nil {
								kind = "for-ever"
							} else if x.Init != nil && x.Post != nil {
								kind = "for-counted"
							}
							loops = append(loops, kind)
						case *ast.IndexExpr:
							if tv, ok := info.Types[x.X]; ok {
								switch tv.Type.Underlying().(type) {
								case *types.Slice, *types.Array, *types.Basic, *types.Pointer:
									if c := w.indexClass(x); c != "" {
										guarded[c]++
									} else {
										panics = append(panics, fn+": index "+keyStr(info, x))
									}
								}
							}
						case *ast.SliceExpr:
							if c := w.sliceClass(x); c != "" {
								guarded[c]++
							} else {
								panics = append(panics, fn+": slice "+keyStr(info, x))
							}
						case *ast.TypeAssertExpr:
							if x.Type != nil {
								if commaOk[x] {
									guarded["type assertion in comma-ok form"]++
								} else {
									panics = append(panics, fn+": assert "+keyStr(info, x))
								}
							}
						case *ast.CallExpr:
							callee := exprStr(x.Fun)
							if callee == "panic" {
								panics = append(panics, fn+": panic")
							}
							if name, ok := isSortCall(x); ok && (strings.HasPrefix(name, "sort.") || strings.HasPrefix(name, "slices.Sort")) {
								sorts = append(sorts, sortClass(x, name, info))
							}
							var obj types.Object
							if sel, ok := x.Fun.(*ast.SelectorExpr); ok {
								obj = info.Uses[sel.Sel]
								if strings.HasPrefix(sel.Sel.Name, "Must") {
									selfMod := ""
									if o, ok := info.Defs[fd.Name].(*types.Func); ok {
										selfMod = modFunc(o)
									}
									own := false
									if tv, ok := info.Types[sel.X]; ok {
										t := tv.Type
										if pt, ok := t.(*types.Pointer); ok {
											t = pt.Elem()
										}
										if nt, ok := t.(*types.Named); ok && nt.Obj().Pkg() != nil && strings.HasSuffix(nt.Obj().Pkg().Path(), "internal/gontainer") {
											own = true
										}
									}
									if own {
										// a Must-getter of the tool's OWN generated container: what it builds is the shipped wiring (C19), the same on
										// every run — a broken wiring fails every run, whatever the input
										guarded["Must getter of the tool's own generated container"]++
									} else {
										mustSites = append(mustSites, [2]string{selfMod, fn + ": " + keyStr(info, x.Fun)})
									}
								}
								if callee == "strings.Repeat" {
									panics = append(panics, fn+": strings.Repeat")
								}
								if id, ok := sel.X.(*ast.Ident); ok {
									if pk, ok := info.Uses[id].(*types.PkgName); ok {
										switch pk.Imported().Path() {
										case "os", "io/fs", "time", "math/rand", "runtime", "path/filepath", "os/exec", "net", "net/http":
											ambient = append(ambient, fn+": "+pk.Imported().Path()+"."+sel.Sel.Name)
											ambientAPIs = append(ambientAPIs, pk.Imported().Path()+"."+sel.Sel.Name)
										}
									}
								}
							} else if id, ok := x.Fun.(*ast.Ident); ok {
								obj = info.Uses[id]
							}
							// static call graph: calls that resolve to a concrete function or method of the module itself
							if f, ok := obj.(*types.Func); ok && self != "" && f.Pkg() != nil && strings.HasPrefix(f.Pkg().Path(), "github.com/gontainer/gontainer") {
								static := true
								if sig, ok := f.Type().(*types.Signature); ok && sig.Recv() != nil {
									if _, isIface := sig.Recv().Type().Underlying().(*types.Interface); isIface {
										static = false
									}
								}
								if static {
									callGraph[self] = append(callGraph[self], f.FullName())
								}
							}
						}
						return true
					})
				}
			}
		}
	}
	// a Must* call inside a function that nothing but package-level initialisers (and init) refers to runs before main():
	// if it panics, every run of the tool fails the same way — it does not depend on the input
	for _, ms := range mustSites {
		if ms[0] != "" && usedAtPkgLevel[ms[0]] && !usedFromFuncs[ms[0]] {
			guarded["Must call in a function used only by package-level initialisers"]++
		} else {
			panics = append(panics, ms[1])
		}
	}
	// functions on a cycle of the static call graph (recursion, direct or mutual)
	var rec []string
	for f := range callGraph {
		seen := map[string]bool{}
		var todo []string
		todo = append(todo, callGraph[f]...)
		for len(todo) > 0 {
			g := todo[len(todo)-1]
			todo = todo[:len(todo)-1]
			if g == f {
				rec = append(rec, f)
				break
			}
			if seen[g] {
				continue
			}
			seen[g] = true
			todo = append(todo, callGraph[g]...)
		}
	}
	for _, l := range [](*[]string){&mapRanges, &panics, &loops, &ambient, &ambientAPIs, &stepNames, &rec, &sorts, &mapClasses} {
		sort.Strings(*l)
	}
	var gl []string
	for c, n := range guarded {
		gl = append(gl, fmt.Sprintf("(%s, %d)", leanStr(c), n))
	}
	sort.Strings(gl)
	var b strings.Builder
	b.WriteString("/- REGENERATED by /verif/tools/sites (go/types, source importer) from every non-test .go file of /repo\n   except the generated internal/gontainer/gontainer.go — do not edit. -/\nnamespace GM.Generated\n\n")
	fmt.Fprintf(&b, "/-- `range` statements over map-typed expressions whose body is of a recognised order-independent form (class, one entry per site) -/\ndef mapRangeClasses : List String := %s\n\n", leanList(mapClasses))
	fmt.Fprintf(&b, "/-- the other `range` statements over map-typed expressions, by location -/\ndef mapRangeSites : List String := %s\n\n", leanList(counted(mapRanges)))
	fmt.Fprintf(&b, "/-- the ordering of every sort call (one entry per call) -/\ndef sortSites : List String := %s\n\n", leanList(sorts))
	fmt.Fprintf(&b, "/-- panic-capable constructs that are guarded in a recognised way: (guard, number of sites) -/\ndef guardedSites : List (String × Nat) := [%s]\n\n", strings.Join(gl, ", "))
	fmt.Fprintf(&b, "/-- the other constructs that can panic, by location: slice/array/string index, slice expression, type assertion without comma-ok, explicit panic, Must* call, strings.Repeat -/\ndef panicSites : List String := %s\n\n", leanList(counted(panics)))
	fmt.Fprintf(&b, "/-- the kind of every `for` statement (one entry per kind that occurs) -/\ndef loopKinds : List String := %s\n\n", leanList(uniq(loops)))
	fmt.Fprintf(&b, "/-- functions on a cycle of the static call graph of the module (calls through interfaces excluded) -/\ndef recursiveFuncs : List String := %s\n\n", leanList(uniq(rec)))
	fmt.Fprintf(&b, "/-- the functions of os, io/fs, time, math/rand, runtime, path/filepath, os/exec, net the module calls -/\ndef ambientAPIs : List String := %s\n\n", leanList(uniq(ambientAPIs)))
	fmt.Fprintf(&b, "/-- … and where (package.function: API) -/\ndef ambientCalls : List String := %s\n\n", leanList(uniq(ambient)))
	fmt.Fprintf(&b, "/-- literal step names returned by Name() methods -/\ndef stepNames : List String := %s\n\nend GM.Generated\n", leanList(uniq(stepNames)))
	path := filepath.Join(out, "Sites.lean")
	old, err := os.ReadFile(path)
	if err != nil || string(old) != b.String() {
		if err := os.WriteFile(path, []byte(b.String()), 0o644); err != nil {
			fmt.Fprintln(os.Stderr, err)
			os.Exit(2)
		}
	}
}

// counted: the distinct entries, sorted; an entry that occurs n > 1 times is written "entry (x n)"
func counted(l []string) []string {
	n := map[string]int{}
	for _, s := range l {
		n[s]++
	}
	var out []string
	for s, k := range n {
		if k > 1 {
			s = fmt.Sprintf("%s (x %d)", s, k)
		}
		out = append(out, s)
	}
	sort.Strings(out)
	return out
}

func uniq(l []string) []string {
	var r []string
	for i, s := range l {
		if i == 0 || s != l[i-1] {
			r = append(r, s)
		}
	}
	return r
}
