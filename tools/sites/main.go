// sites: typed inventory of /repo's own non-test code (stdlib go/types with the source importer):
//   (a) `range` over map-typed expressions, (b) panic-capable constructs, (c) `for` statements and
//   recursion, (d) calls into os / io/fs / time / math/rand / runtime / path/filepath.
// usage (cwd = /repo): sites <outdir>   → writes <outdir>/Sites.lean
package main

import (
	"fmt"
	"go/ast"
	"go/importer"
	"go/parser"
	"go/printer"
	"go/token"
	"go/types"
	"os"
	"path/filepath"
	"sort"
	"strings"
)

func exprStr(fset *token.FileSet, e ast.Node) string {
	var b strings.Builder
	_ = printer.Fprint(&b, fset, e)
	return strings.Join(strings.Fields(b.String()), " ")
}

func leanStr(s string) string {
	s = strings.ReplaceAll(s, `\`, `\\`)
	s = strings.ReplaceAll(s, `"`, `\"`)
	s = strings.ReplaceAll(s, "\n", `\n`)
	s = strings.ReplaceAll(s, "\t", `\t`)
	return `"` + s + `"`
}

func leanList(l []string) string {
	q := make([]string, len(l))
	for i, s := range l {
		q[i] = leanStr(s)
	}
	return "[" + strings.Join(q, ", ") + "]"
}

func main() {
	out := os.Args[1]
	fset := token.NewFileSet()
	imp := importer.ForCompiler(fset, "source", nil)
	var dirs []string
	_ = filepath.Walk(".", func(p string, info os.FileInfo, err error) error {
		if err == nil && info.IsDir() && !strings.HasPrefix(p, ".git") && !strings.Contains(p, "testdata") {
			dirs = append(dirs, p)
		}
		return nil
	})
	sort.Strings(dirs)
	var mapRanges, panics, loops, ambient, stepNames, sorts []string
	calls := map[string][]string{}
	for _, d := range dirs {
		pkgs, err := parser.ParseDir(fset, d, func(fi os.FileInfo) bool {
			return !strings.HasSuffix(fi.Name(), "_test.go") && !(d == "internal/gontainer" && fi.Name() == "gontainer.go")
		}, 0)
		if err != nil || len(pkgs) == 0 {
			continue
		}
		for pname, p := range pkgs {
			var files []*ast.File
			var names []string
			for n := range p.Files {
				names = append(names, n)
			}
			sort.Strings(names)
			for _, n := range names {
				files = append(files, p.Files[n])
			}
			info := &types.Info{Types: map[ast.Expr]types.TypeAndValue{}, Uses: map[*ast.Ident]types.Object{}, Selections: map[*ast.SelectorExpr]*types.Selection{}}
			conf := types.Config{Importer: imp, Error: func(error) {}}
			_, _ = conf.Check(d, fset, files, info)
			for _, f := range files {
				for _, decl := range f.Decls {
					fd, ok := decl.(*ast.FuncDecl)
					if !ok || fd.Body == nil {
						continue
					}
					fn := pname + "." + fd.Name.Name
					if fd.Recv != nil && len(fd.Recv.List) > 0 {
						fn = pname + "." + strings.TrimPrefix(exprStr(fset, fd.Recv.List[0].Type), "*") + "." + fd.Name.Name
					}
					if fd.Name.Name == "Name" && fd.Recv != nil {
						ast.Inspect(fd.Body, func(n ast.Node) bool {
							if r, ok := n.(*ast.ReturnStmt); ok && len(r.Results) == 1 {
								if bl, ok := r.Results[0].(*ast.BasicLit); ok {
									stepNames = append(stepNames, strings.Trim(bl.Value, `"`))
								}
							}
							return true
						})
					}
					ast.Inspect(fd.Body, func(n ast.Node) bool {
						switch x := n.(type) {
						case *ast.RangeStmt:
							if tv, ok := info.Types[x.X]; ok {
								if _, isMap := tv.Type.Underlying().(*types.Map); isMap {
									mapRanges = append(mapRanges, fn+": range "+exprStr(fset, x.X))
								}
							}
							loops = append(loops, fn+": range")
						case *ast.ForStmt:
							kind := "for-cond"
							if x.Cond == nil {
								kind = "for-ever"
							} else if x.Init != nil && x.Post != nil {
								kind = "for-counted"
							}
							loops = append(loops, fn+": "+kind)
						case *ast.IndexExpr:
							if tv, ok := info.Types[x.X]; ok {
								switch tv.Type.Underlying().(type) {
								case *types.Slice, *types.Array, *types.Basic:
									panics = append(panics, fn+": index "+exprStr(fset, x))
								case *types.Pointer:
									panics = append(panics, fn+": index "+exprStr(fset, x))
								}
							}
						case *ast.SliceExpr:
							panics = append(panics, fn+": slice "+exprStr(fset, x))
						case *ast.TypeAssertExpr:
							if x.Type != nil {
								panics = append(panics, fn+": assert "+exprStr(fset, x))
							}
						case *ast.CallExpr:
							callee := exprStr(fset, x.Fun)
							if callee == "panic" {
								panics = append(panics, fn+": panic")
							}
							if sel, ok := x.Fun.(*ast.SelectorExpr); ok {
								if id, ok := sel.X.(*ast.Ident); ok && id.Name == "sort" {
									// the ordering used: comparator body (or the whole call for sort.Strings & co.)
									cmp := exprStr(fset, x)
									if len(x.Args) == 2 {
										if fl, ok := x.Args[1].(*ast.FuncLit); ok {
											cmp = "sort." + sel.Sel.Name + ": " + exprStr(fset, fl.Body)
										}
									}
									sorts = append(sorts, fn+": "+cmp)
								}
								if strings.HasPrefix(sel.Sel.Name, "Must") {
									panics = append(panics, fn+": "+callee)
								}
								if callee == "strings.Repeat" {
									panics = append(panics, fn+": strings.Repeat "+exprStr(fset, x.Args[1]))
								}
								if id, ok := sel.X.(*ast.Ident); ok {
									if obj, ok := info.Uses[id].(*types.PkgName); ok {
										switch obj.Imported().Path() {
										case "os", "io/fs", "time", "math/rand", "runtime", "path/filepath", "os/exec", "net", "net/http":
											ambient = append(ambient, fn+": "+obj.Imported().Path()+"."+sel.Sel.Name)
										}
									}
								}
								calls[fn] = append(calls[fn], sel.Sel.Name)
							} else if id, ok := x.Fun.(*ast.Ident); ok {
								calls[fn] = append(calls[fn], id.Name)
							}
						}
						return true
					})
				}
			}
		}
	}
	// comma-ok assertions are not panic sites: the parser gives them as the single RHS of a 2-value assignment; filter textually
	// (handled by re-walk: cheap heuristic — an assertion inside `x, ok := y.(T)` or `if _, ok := …`)
	panics = filterCommaOk(fset, dirs, panics)
	// direct recursion (by simple name) — a coarse over-approximation of call-graph cycles
	var rec []string
	for fn, cs := range calls {
		short := fn[strings.LastIndex(fn, ".")+1:]
		for _, c := range cs {
			if c == short {
				rec = append(rec, fn)
				break
			}
		}
	}
	for _, l := range [](*[]string){&mapRanges, &panics, &loops, &ambient, &stepNames, &rec, &sorts} {
		sort.Strings(*l)
	}
	var b strings.Builder
	b.WriteString("/- REGENERATED by /verif/tools/sites (go/types, source importer) from every non-test .go file of /repo\n   except the generated internal/gontainer/gontainer.go — do not edit. -/\nnamespace GM.Generated\n\n")
	fmt.Fprintf(&b, "/-- `range` statements over map-typed expressions -/\ndef mapRangeSites : List String := %s\n\n", leanList(uniq(mapRanges)))
	fmt.Fprintf(&b, "/-- every call into package sort with the ordering it uses (comparator body) -/\ndef sortSites : List String := %s\n\n", leanList(uniq(sorts)))
	fmt.Fprintf(&b, "/-- constructs that can panic: slice/array/string index, slice expression, type assertion without comma-ok, explicit panic, Must* call, strings.Repeat -/\ndef panicSites : List String := %s\n\n", leanList(uniq(panics)))
	{
		var ps []string
		for _, l := range uniq(loops) {
			i := strings.LastIndex(l, ": ")
			ps = append(ps, "("+leanStr(l[:i])+", "+leanStr(l[i+2:])+")")
		}
		fmt.Fprintf(&b, "/-- every `for` statement: (function, kind) -/\ndef loopSites : List (String × String) := [%s]\n\n", strings.Join(ps, ", "))
	}
	fmt.Fprintf(&b, "/-- functions that call a function of their own name (coarse recursion check) -/\ndef selfCalls : List String := %s\n\n", leanList(uniq(rec)))
	fmt.Fprintf(&b, "/-- calls into os, io/fs, time, math/rand, runtime, path/filepath, os/exec, net -/\ndef ambientCalls : List String := %s\n\n", leanList(uniq(ambient)))
	fmt.Fprintf(&b, "/-- literal step names returned by Name() methods -/\ndef stepNames : List String := %s\n\nend GM.Generated\n", leanList(uniq(stepNames)))
	path := filepath.Join(out, "Sites.lean")
	old, err := os.ReadFile(path)
	if err != nil || string(old) != b.String() {
		if err := os.WriteFile(path, []byte(b.String()), 0o644); err != nil {
			fmt.Fprintln(os.Stderr, err)
			os.Exit(2)
		}
	}
}

func uniq(l []string) []string {
	var r []string
	for i, s := range l {
		if i == 0 || s != l[i-1] {
			r = append(r, s)
		}
	}
	return r
}

// filterCommaOk drops `assert` entries whose expression text occurs in the source as the RHS of a two-value assignment
func filterCommaOk(fset *token.FileSet, dirs []string, panics []string) []string {
	commaOk := map[string]bool{}
	for _, d := range dirs {
		pkgs, err := parser.ParseDir(fset, d, func(fi os.FileInfo) bool { return !strings.HasSuffix(fi.Name(), "_test.go") }, 0)
		if err != nil {
			continue
		}
		for _, p := range pkgs {
			for _, f := range p.Files {
				ast.Inspect(f, func(n ast.Node) bool {
					if as, ok := n.(*ast.AssignStmt); ok && len(as.Lhs) == 2 && len(as.Rhs) == 1 {
						if ta, ok := as.Rhs[0].(*ast.TypeAssertExpr); ok {
							commaOk[exprStr(fset, ta)] = true
						}
					}
					if vs, ok := n.(*ast.ValueSpec); ok && len(vs.Names) == 2 && len(vs.Values) == 1 {
						if ta, ok := vs.Values[0].(*ast.TypeAssertExpr); ok {
							commaOk[exprStr(fset, ta)] = true
						}
					}
					return true
				})
			}
		}
	}
	var r []string
	for _, p := range panics {
		if i := strings.Index(p, ": assert "); i >= 0 && commaOk[p[i+len(": assert "):]] {
			continue
		}
		r = append(r, p)
	}
	return r
}
