module verif/sites

go 1.21
