//go:build verif

package main

import (
	"encoding/json"
	"fmt"
	"go/ast"
	"go/parser"
	"go/printer"
	"go/token"
	"os"
	"path/filepath"
	"reflect"
	"regexp"
	"regexp/syntax"
	"sort"
	"strconv"
	"strings"
	"text/template/parse"

	"github.com/gontainer/gontainer-helpers/v3/container"
	"github.com/gontainer/gontainer-helpers/v3/exporter"
	"github.com/gontainer/gontainer/internal/pkg/input"
	"gopkg.in/yaml.v3"
)

// ---------------------------------------------------------------------------------------
// regular expressions → Lean terms of GM.Re

type reFact struct {
	kind string // full | prefix | search
	term string
}

func leanStr(s string) string {
	var b strings.Builder
	b.WriteByte('"')
	for _, r := range s {
		switch {
		case r == '"':
			b.WriteString(`\"`)
		case r == '\\':
			b.WriteString(`\\`)
		case r == '\n':
			b.WriteString(`\n`)
		case r == '\t':
			b.WriteString(`\t`)
		case r < 32 || r == 127:
			fmt.Fprintf(&b, `\x%02x`, r)
		default:
			b.WriteRune(r)
		}
	}
	b.WriteByte('"')
	return b.String()
}

func leanStrList(l []string) string {
	q := make([]string, len(l))
	for i, s := range l {
		q[i] = leanStr(s)
	}
	return "[" + strings.Join(q, ", ") + "]"
}

func reTerm(r *syntax.Regexp) (string, error) {
	if r.Flags&syntax.FoldCase != 0 || r.Flags&syntax.NonGreedy != 0 {
		return "", fmt.Errorf("unsupported flags in %s", r)
	}
	switch r.Op {
	case syntax.OpNoMatch:
		return "Re.empty", nil
	case syntax.OpEmptyMatch:
		return "Re.eps", nil
	case syntax.OpLiteral:
		parts := make([]string, len(r.Rune))
		for i, c := range r.Rune {
			parts[i] = fmt.Sprintf("Re.cls [(%d, %d)]", c, c)
		}
		return nest("Re.cat", parts), nil
	case syntax.OpCharClass:
		rs := []string{}
		for i := 0; i+1 < len(r.Rune); i += 2 {
			rs = append(rs, fmt.Sprintf("(%d, %d)", r.Rune[i], r.Rune[i+1]))
		}
		return "Re.cls [" + strings.Join(rs, ", ") + "]", nil
	case syntax.OpAnyCharNotNL:
		return "Re.anyNotNL", nil
	case syntax.OpAnyChar:
		return "Re.cls [(0, 1114111)]", nil
	case syntax.OpCapture:
		s, err := reTerm(r.Sub[0])
		if err != nil {
			return "", err
		}
		if r.Name == "" {
			return s, nil
		}
		return fmt.Sprintf("Re.group %s (%s)", leanStr(r.Name), s), nil
	case syntax.OpStar, syntax.OpPlus, syntax.OpQuest:
		s, err := reTerm(r.Sub[0])
		if err != nil {
			return "", err
		}
		fn := map[syntax.Op]string{syntax.OpStar: "Re.star", syntax.OpPlus: "Re.plus", syntax.OpQuest: "Re.opt"}[r.Op]
		return fmt.Sprintf("%s (%s)", fn, s), nil
	case syntax.OpConcat, syntax.OpAlternate:
		parts := make([]string, len(r.Sub))
		for i, s := range r.Sub {
			t, err := reTerm(s)
			if err != nil {
				return "", err
			}
			parts[i] = t
		}
		if r.Op == syntax.OpConcat {
			return nest("Re.cat", parts), nil
		}
		return nest("Re.alt", parts), nil
	}
	return "", fmt.Errorf("unsupported regexp op %v in %s", r.Op, r)
}

func nest(fn string, parts []string) string {
	if len(parts) == 0 {
		return "Re.eps"
	}
	if len(parts) == 1 {
		return parts[0]
	}
	return fmt.Sprintf("%s (%s) (%s)", fn, parts[0], nest(fn, parts[1:]))
}

func reFactOf(re *regexp.Regexp) (reFact, error) {
	p, err := syntax.Parse(re.String(), syntax.Perl)
	if err != nil {
		return reFact{}, err
	}
	kind := "search"
	body := p
	if p.Op == syntax.OpConcat && len(p.Sub) >= 2 && p.Sub[0].Op == syntax.OpBeginText {
		subs := p.Sub[1:]
		kind = "prefix"
		if subs[len(subs)-1].Op == syntax.OpEndText {
			kind = "full"
			subs = subs[:len(subs)-1]
		}
		body = &syntax.Regexp{Op: syntax.OpConcat, Sub: subs}
		if len(subs) == 1 {
			body = subs[0]
		}
	}
	// counted repetitions (`x{2,}`) are notation for concatenation/star/option: expand them; patterns without them keep the
	// shape the parser gave them
	if hasRepeat(body) {
		body = body.Simplify()
	}
	if strings.Contains(body.String(), `\A`) || strings.Contains(body.String(), `(?-s:$)`) || strings.Contains(body.String(), `\z`) {
		return reFact{}, fmt.Errorf("anchor inside pattern %s", re)
	}
	t, err := reTerm(body)
	return reFact{kind: kind, term: t}, err
}

func hasRepeat(r *syntax.Regexp) bool {
	if r.Op == syntax.OpRepeat {
		return true
	}
	for _, s := range r.Sub {
		if hasRepeat(s) {
			return true
		}
	}
	return false
}

// roleRegexes: the compiled expressions by ROLE. A role is the name (package_variable) an expression had when the model was
// written (tools/implsrv/roles.json: role ↦ pattern text at that time). A role whose variable is gone — renamed, moved to another
// package, merged with a duplicate — is served by any compiled expression of the tree with exactly that pattern text; a variable
// that still exists is taken as it is (whatever its pattern says now).
func roleRegexes() map[string]*regexp.Regexp {
	all := allRegexes()
	buf, err := os.ReadFile(os.Getenv("VERIF_ROLES"))
	if err != nil {
		return all
	}
	roles := map[string]string{}
	if json.Unmarshal(buf, &roles) != nil {
		return all
	}
	byPattern := map[string]*regexp.Regexp{}
	var names []string
	for n := range all {
		names = append(names, n)
	}
	sort.Strings(names)
	for _, n := range names {
		if _, dup := byPattern[all[n].String()]; !dup {
			byPattern[all[n].String()] = all[n]
		}
	}
	out := map[string]*regexp.Regexp{}
	for n, re := range all {
		out[n] = re
	}
	for role, pat := range roles {
		if _, ok := out[role]; !ok {
			if re, ok := byPattern[pat]; ok {
				out[role] = re
			}
		}
	}
	return out
}

func factsRegex(dir string) error {
	all := roleRegexes()
	names := make([]string, 0, len(all))
	for n := range all {
		names = append(names, n)
	}
	sort.Strings(names)
	var b strings.Builder
	b.WriteString("/- REGENERATED by /verif/tools/implsrv (facts) from the compiled package-level regular\n   expressions of /repo — do not edit. -/\nimport GontainerModel.Model.Re\nnamespace GM.Generated\nopen GM\n\n")
	var idx []string
	for _, n := range names {
		f, err := reFactOf(all[n])
		if err != nil {
			// an expression outside the translated fragment is recorded as such: only what mentions THIS expression breaks
			f = reFact{kind: "untranslated: " + err.Error(), term: "Re.empty"}
		}
		fmt.Fprintf(&b, "/-- `%s` -/\ndef re_%s : Re :=\n  %s\ndef kind_%s : String := %s\n\n", strings.ReplaceAll(all[n].String(), "-/", "- /"), n, f.term, n, leanStr(f.kind))
		idx = append(idx, leanStr(n))
	}
	// internal helper expressions a maintainer may replace by other code (their behaviour is tied by a correspondence, the
	// expression is pinned only while it exists): `some (expression, anchoring)` or `none`
	for _, n := range []string{"imports_regexNoAlphaNum", "template_reEmptyNewLines"} {
		if _, ok := all[n]; ok {
			fmt.Fprintf(&b, "def opt_%s : Option (Re × String) := some (re_%s, kind_%s)\n", n, n, n)
		} else {
			fmt.Fprintf(&b, "def opt_%s : Option (Re × String) := none\n", n)
		}
	}
	fmt.Fprintf(&b, "\ndef regexNames : List String := [%s]\n\nend GM.Generated\n", strings.Join(idx, ", "))
	return writeIfChanged(filepath.Join(dir, "Regex.lean"), b.String())
}

func writeIfChanged(path, content string) error {
	old, err := os.ReadFile(path)
	if err == nil && string(old) == content {
		return nil
	}
	return os.WriteFile(path, []byte(content), 0o644)
}

// ---------------------------------------------------------------------------------------
// the shipped wiring: read internal/gontainer/gontainer.go with go/ast

type svcWiring struct {
	name   string
	ctor   string
	args   []string
	tags   []string
	getter string
}

func exprStr(fset *token.FileSet, e ast.Expr) string {
	var b strings.Builder
	_ = printer.Fprint(&b, fset, e)
	return b.String()
}

// depStr renders a dependency argument: dependencyService("x") → "@x", dependencyValue(e) → "!value e",
// dependencyProvider(...getParam("p")...) → "%p%", dependencyTag("t") → "!tagged t"
func depStr(fset *token.FileSet, e ast.Expr, importPaths map[string]string) string {
	call, ok := e.(*ast.CallExpr)
	if !ok {
		return "?" + exprStr(fset, e)
	}
	fn := exprStr(fset, call.Fun)
	switch fn {
	case "dependencyService":
		s, _ := strconv.Unquote(exprStr(fset, call.Args[0]))
		return "@" + s
	case "dependencyTag":
		s, _ := strconv.Unquote(exprStr(fset, call.Args[0]))
		return "!tagged " + s
	case "dependencyValue":
		return "!value " + unalias(exprStr(fset, call.Args[0]), importPaths)
	case "dependencyProvider":
		src := exprStr(fset, call.Args[0])
		if m := regexp.MustCompile(`getParam\("([^"]*)"\)`).FindStringSubmatch(src); m != nil && strings.Count(src, "getParam(") == 1 && !strings.Contains(src, "concatenateChunks") {
			return "%" + m[1] + "%"
		}
		if m := regexp.MustCompile(`return ("(?:[^"\\]|\\.)*"), nil`).FindStringSubmatch(src); m != nil && !strings.Contains(src, "concatenateChunks") {
			s, _ := strconv.Unquote(m[1])
			return "=" + s
		}
		return "provider:" + src
	}
	return "?" + exprStr(fset, e)
}

// unalias rewrites `i3_token.X` to `<last path element>.X` using the file's import table
func unalias(s string, importPaths map[string]string) string {
	return regexp.MustCompile(`\bi[0-9a-f]+_[A-Za-z0-9_]+\b`).ReplaceAllStringFunc(s, func(a string) string {
		if p, ok := importPaths[a]; ok {
			parts := strings.Split(p, "/")
			return parts[len(parts)-1]
		}
		return a
	})
}

func readWiring(path string) ([]svcWiring, [][]string, error) {
	fset := token.NewFileSet()
	f, err := parser.ParseFile(fset, path, nil, 0)
	if err != nil {
		return nil, nil, err
	}
	importPaths := map[string]string{}
	for _, im := range f.Imports {
		p, _ := strconv.Unquote(im.Path.Value)
		if im.Name != nil {
			importPaths[im.Name.Name] = p
		}
	}
	var svcs []svcWiring
	var decs [][]string
	// parameters defined as plain string literals: a `%name%` argument stands for the literal
	litParams := map[string]string{}
	ast.Inspect(f, func(n ast.Node) bool {
		if call, ok := n.(*ast.CallExpr); ok && exprStr(fset, call.Fun) == "c.OverrideParam" && len(call.Args) == 2 {
			name, _ := strconv.Unquote(exprStr(fset, call.Args[0]))
			if v := depStr(fset, call.Args[1], importPaths); strings.HasPrefix(v, "=") {
				litParams[name] = v
			}
		}
		return true
	})
	subst := func(a string) string {
		if len(a) > 2 && a[0] == '%' && a[len(a)-1] == '%' {
			if v, ok := litParams[a[1:len(a)-1]]; ok {
				return v
			}
		}
		return a
	}
	ast.Inspect(f, func(n ast.Node) bool {
		fd, ok := n.(*ast.FuncDecl)
		if !ok {
			return true
		}
		if fd.Recv != nil || fd.Type.Results == nil || fd.Body == nil {
			return false
		}
		// the container constructor: contains blocks `{ s := newService() … c.OverrideService("id", s) }`
		for _, st := range fd.Body.List {
			if blk, ok := st.(*ast.BlockStmt); ok {
				var w svcWiring
				for _, bs := range blk.List {
					es, ok := bs.(*ast.ExprStmt)
					if !ok {
						continue
					}
					call, ok := es.X.(*ast.CallExpr)
					if !ok {
						continue
					}
					switch exprStr(fset, call.Fun) {
					case "s.SetConstructor":
						w.ctor = unalias(exprStr(fset, call.Args[0]), importPaths)
						if _, isLit := call.Args[0].(*ast.FuncLit); isLit {
							w.ctor = "func:" + w.ctor
						}
						for _, a := range call.Args[1:] {
							w.args = append(w.args, subst(depStr(fset, a, importPaths)))
						}
					case "s.Tag":
						t, _ := strconv.Unquote(exprStr(fset, call.Args[0]))
						w.tags = append(w.tags, t)
					case "c.OverrideService":
						w.name, _ = strconv.Unquote(exprStr(fset, call.Args[0]))
					}
				}
				if w.name != "" {
					svcs = append(svcs, w)
				}
				continue
			}
			if es, ok := st.(*ast.ExprStmt); ok {
				if call, ok := es.X.(*ast.CallExpr); ok && exprStr(fset, call.Fun) == "c.AddDecorator" {
					t, _ := strconv.Unquote(exprStr(fset, call.Args[0]))
					d := []string{t, unalias(exprStr(fset, call.Args[1]), importPaths)}
					for _, a := range call.Args[2:] {
						d = append(d, subst(depStr(fset, a, importPaths)))
					}
					decs = append(decs, d)
				}
			}
		}
		return false
	})
	return svcs, decs, nil
}

func factsWiring(dir string) error {
	svcs, decs, err := readWiring(filepath.Join(repoRoot(), "internal", "gontainer", "gontainer.go"))
	if err != nil {
		return err
	}
	var b strings.Builder
	b.WriteString("/- REGENERATED by /verif/tools/implsrv (facts) from internal/gontainer/gontainer.go (the shipped wiring),\n   cmd_build.go and runner_builder.go — do not edit. -/\nnamespace GM.Generated\n\n")
	b.WriteString("/-- the arguments of a wired service as a collection of a given size: where the arguments have different types their order\ncarries no meaning of its own (it follows the constructor's signature, which the Go compiler checks) -/\ndef argsAre (got : Option (List String)) (want : List String) : Bool :=\n  match got with\n  | some l => l.length == want.length && want.all (l.contains ·) && l.all (want.contains ·)\n  | none => false\n\n")
	b.WriteString("/-- (service id, constructor, dependency arguments, tags) as wired in the checked-in generated container -/\ndef wiring : List (String × String × List String × List String) := [\n")
	for i, s := range svcs {
		sep := ","
		if i == len(svcs)-1 {
			sep = ""
		}
		fmt.Fprintf(&b, "  (%s, %s, %s, %s)%s\n", leanStr(s.name), leanStr(s.ctor), leanStrList(s.args), leanStrList(s.tags), sep)
	}
	b.WriteString("]\n\n/-- decorators of the shipped wiring: tag, function, arguments -/\ndef wiringDecorators : List (List String) := [")
	for i, d := range decs {
		if i > 0 {
			b.WriteString(", ")
		}
		b.WriteString(leanStrList(d))
	}
	b.WriteString("]\n\n")
	// flags → payload → Active(...) wiring in cmd_build.go / runner_builder.go
	fw, err := flagWiring()
	if err != nil {
		return err
	}
	b.WriteString("/-- (command-line flag, payload field, negated?, getter the payload field is applied to via Active) -/\ndef flagWiring : List (String × String × Bool × String) := [")
	for i, f := range fw {
		if i > 0 {
			b.WriteString(", ")
		}
		fmt.Fprintf(&b, "(%s, %s, %v, %s)", leanStr(f[0]), leanStr(f[1]), f[2] == "neg", leanStr(f[3]))
	}
	b.WriteString("]\n\n/-- getter method → service id, from the generated container's getters -/\ndef getterService : List (String × String) := [")
	gs, err := getterServices()
	if err != nil {
		return err
	}
	for i, g := range gs {
		if i > 0 {
			b.WriteString(", ")
		}
		fmt.Fprintf(&b, "(%s, %s)", leanStr(g[0]), leanStr(g[1]))
	}
	b.WriteString("]\n\n")
	// main.go: how the linker-provided version is normalised before it reaches the command
	cond, body, handed, err := mainVersionFacts()
	if err != nil {
		return err
	}
	fmt.Fprintf(&b, "/-- main.go buildVersion: the condition under which the version is rewritten, the rewriting statement(s),\nand the expression main() hands to cmd.NewBuildCmd as the build version -/\ndef mainTrimCond : String := %s\ndef mainTrimBody : List String := %s\ndef mainVersionHanded : String := %s\n", leanStr(cond), leanStrList(body), leanStr(handed))
	// the same table, read from the YAML files the checked-in container is generated from (real decoder + Merge)
	ysvcs, ydecs, err := yamlWiring()
	if err != nil {
		return err
	}
	b.WriteString("/-- (service id, constructor, dependency arguments, tags) as DECLARED by internal/gontainer/gontainer.yaml + gontainer_*.yaml -/\ndef yamlWiring : List (String × String × List String × List String) := [\n")
	for i, s := range ysvcs {
		sep := ","
		if i == len(ysvcs)-1 {
			sep = ""
		}
		fmt.Fprintf(&b, "  (%s, %s, %s, %s)%s\n", leanStr(s.name), leanStr(s.ctor), leanStrList(s.args), leanStrList(s.tags), sep)
	}
	b.WriteString("]\n\ndef yamlDecorators : List (List String) := [")
	for i, d := range ydecs {
		if i > 0 {
			b.WriteString(", ")
		}
		b.WriteString(leanStrList(d))
	}
	b.WriteString("]\n\n")
	// input_scope.go: the keyword table (constant name, keyword) of mapScopeString
	sk, err := scopeKeywordFacts()
	if err != nil {
		return err
	}
	b.WriteString("/-- input_scope.go mapScopeString: (scope constant, YAML keyword) -/\ndef scopeKeywordTable : List (String × String) := [")
	for i, p := range sk {
		if i > 0 {
			b.WriteString(", ")
		}
		fmt.Fprintf(&b, "(%s, %s)", leanStr(p[0]), leanStr(p[1]))
	}
	b.WriteString("]\n")
	b.WriteString("\nend GM.Generated\n")
	return writeIfChanged(filepath.Join(dir, "Wiring.lean"), b.String())
}

// yamlWiring renders the self configuration in the notation of readWiring: constructor with the alias replaced by the
// last element of its import path, arguments as written (`@svc`, `!value expr`, `!tagged t`, `%param%`, `=literal`).
func yamlWiring() ([]svcWiring, [][]string, error) {
	dir := filepath.Join(repoRoot(), "internal", "gontainer")
	files, _ := filepath.Glob(filepath.Join(dir, "gontainer_*.yaml"))
	sort.Strings(files)
	files = append([]string{filepath.Join(dir, "gontainer.yaml")}, files...)
	i := input.Input{}
	for _, f := range files {
		buf, err := os.ReadFile(f)
		if err != nil {
			return nil, nil, err
		}
		var tmp input.Input
		if err := yaml.Unmarshal(buf, &tmp); err != nil {
			return nil, nil, fmt.Errorf("%s: %w", f, err)
		}
		i = input.Merge(i, tmp)
	}
	last := func(alias string) string {
		if p, ok := i.Meta.Imports[alias]; ok {
			parts := strings.Split(p, "/")
			return parts[len(parts)-1]
		}
		return alias
	}
	unal := func(expr string) string {
		return regexp.MustCompile(`(^|[^A-Za-z0-9_.])([A-Za-z][A-Za-z0-9_]*)\.`).ReplaceAllStringFunc(expr, func(m string) string {
			sub := regexp.MustCompile(`([A-Za-z][A-Za-z0-9_]*)\.$`).FindStringSubmatch(m)
			return strings.TrimSuffix(m, sub[0]) + last(sub[1]) + "."
		})
	}
	arg := func(a any) string {
		s, ok := a.(string)
		if !ok {
			return "!value " + exporter.MustExport(a)
		}
		switch {
		case strings.HasPrefix(s, "@"), strings.HasPrefix(s, "!tagged "):
			return s
		case strings.HasPrefix(s, "!value "):
			return "!value " + unal(strings.TrimPrefix(s, "!value "))
		case regexp.MustCompile(`^%[^%()]+%$`).MatchString(s):
			// a reference to a parameter that is a plain string literal stands for that literal (a constant named in one place)
			if pv, ok := i.Params[s[1:len(s)-1]].(string); ok && !strings.Contains(pv, "%") && !strings.HasPrefix(pv, "@") && !strings.HasPrefix(pv, "!") && pv != "$gontainer" {
				return "=" + pv
			}
			return s
		case !strings.Contains(s, "%"):
			return "=" + s
		}
		return "pattern:" + s
	}
	var names []string
	for n := range i.Services {
		names = append(names, n)
	}
	sort.Strings(names)
	var svcs []svcWiring
	for _, n := range names {
		sv := i.Services[n]
		w := svcWiring{name: n}
		if sv.Todo != nil && *sv.Todo {
			// a todo service is wired as the error constructor of the documented message
			w.ctor = `func:func() (interface{}, error) { return nil, errors.New("service todo") }`
			svcs = append(svcs, w)
			continue
		}
		switch {
		case sv.Constructor != nil:
			w.ctor = unal(*sv.Constructor)
		case sv.Value != nil:
			w.ctor = "func:func() interface{} { return " + unal(*sv.Value) + " }"
		}
		for _, a := range sv.Args {
			w.args = append(w.args, arg(a))
		}
		for _, t := range sv.Tags {
			w.tags = append(w.tags, t.Name)
		}
		svcs = append(svcs, w)
	}
	var decs [][]string
	for _, d := range i.Decorators {
		row := []string{d.Tag, unal(d.Decorator)}
		for _, a := range d.Args {
			row = append(row, arg(a))
		}
		decs = append(decs, row)
	}
	return svcs, decs, nil
}

// scopeKeywordFacts: the named constants of type Scope (from the const block of input_scope.go, in order: iota + 1), each with the
// keyword the running code prints for it — however the tables behind String() are written
func scopeKeywordFacts() ([][2]string, error) {
	fset := token.NewFileSet()
	f, err := parser.ParseFile(fset, filepath.Join(repoRoot(), "internal", "pkg", "input", "input_scope.go"), nil, 0)
	if err != nil {
		return nil, err
	}
	var names []string
	for _, d := range f.Decls {
		gd, ok := d.(*ast.GenDecl)
		if !ok || gd.Tok != token.CONST {
			continue
		}
		isScope := false
		for _, sp := range gd.Specs {
			vs := sp.(*ast.ValueSpec)
			if id, ok := vs.Type.(*ast.Ident); ok {
				isScope = id.Name == "Scope"
			} else if len(vs.Values) > 0 {
				isScope = false
			}
			if isScope {
				for _, n := range vs.Names {
					names = append(names, n.Name)
				}
			}
		}
	}
	var out [][2]string
	for k, n := range names {
		out = append(out, [2]string{n, input.Scope(k + 1).String()})
	}
	return out, nil
}

// mainVersionFacts: in main.go, the if-statement of buildVersion whose body assigns i.GitVersion (condition and body,
// printed), and the first argument of cmd.NewBuildCmd in main().
func mainVersionFacts() (cond string, body []string, handed string, err error) {
	fset := token.NewFileSet()
	f, err := parser.ParseFile(fset, filepath.Join(repoRoot(), "main.go"), nil, 0)
	if err != nil {
		return "", nil, "", err
	}
	pr := func(n ast.Node) string {
		var sb strings.Builder
		printer.Fprint(&sb, fset, n)
		return strings.Join(strings.Fields(sb.String()), " ")
	}
	// the callback that patches the version info: its parameter may have any name; it is printed as `$i`
	info := "i"
	ast.Inspect(f, func(n ast.Node) bool {
		if fl, ok := n.(*ast.FuncLit); ok && len(fl.Type.Params.List) == 1 && len(fl.Type.Params.List[0].Names) == 1 &&
			strings.HasSuffix(pr(fl.Type.Params.List[0].Type), ".Info") {
			info = fl.Type.Params.List[0].Names[0].Name
		}
		return true
	})
	reInfo := regexp.MustCompile(`\b` + regexp.QuoteMeta(info) + `\.`)
	norm := func(s string) string { return reInfo.ReplaceAllString(s, "$$i.") }
	ast.Inspect(f, func(n ast.Node) bool {
		switch x := n.(type) {
		case *ast.IfStmt:
			for _, st := range x.Body.List {
				if as, ok := st.(*ast.AssignStmt); ok && len(as.Lhs) == 1 && pr(as.Lhs[0]) == info+".GitVersion" && x.Init == nil {
					if c := pr(x.Cond); c != `version != ""` {
						cond = norm(c)
						body = nil
						for _, s2 := range x.Body.List {
							body = append(body, norm(pr(s2)))
						}
						if x.Else != nil {
							body = append(body, "else "+norm(pr(x.Else)))
						}
					}
				}
			}
		case *ast.CallExpr:
			if pr(x.Fun) == "cmd.NewBuildCmd" && len(x.Args) > 0 {
				handed = pr(x.Args[0])
				if sel, ok := x.Args[0].(*ast.SelectorExpr); ok {
					if _, isId := sel.X.(*ast.Ident); isId {
						handed = "$bv." + sel.Sel.Name
					}
				}
			}
		}
		return true
	})
	return cond, body, handed, nil
}

func repoRoot() string {
	if r := os.Getenv("VERIF_REPO"); r != "" {
		return r
	}
	return "/repo"
}

// flagWiring: for each BoolVarP(&v, "flag", …) in cmd_build.go, find payload field assignments `field: v` or `field: !v`,
// then in runner_builder.go calls `c.MustGetX().Active(p.field)`.
func flagWiring() ([][4]string, error) {
	fset := token.NewFileSet()
	// every non-test file of internal/cmd: the flag variables may be locals or fields of an options struct, and the payload
	// may be built in a helper; a variable is identified by its last name component (`v`, `opts.v`, `o.v` are the same `v`)
	dir := filepath.Join(repoRoot(), "internal", "cmd")
	ents, err := os.ReadDir(dir)
	if err != nil {
		return nil, err
	}
	var files []*ast.File
	for _, e := range ents {
		if e.IsDir() || !strings.HasSuffix(e.Name(), ".go") || strings.HasSuffix(e.Name(), "_test.go") {
			continue
		}
		f, err := parser.ParseFile(fset, filepath.Join(dir, e.Name()), nil, 0)
		if err != nil {
			return nil, err
		}
		files = append(files, f)
	}
	last := func(e ast.Expr) string {
		switch x := e.(type) {
		case *ast.Ident:
			return x.Name
		case *ast.SelectorExpr:
			return x.Sel.Name
		case *ast.ParenExpr:
			return exprStr(fset, x)
		}
		return ""
	}
	varFlag := map[string]string{}
	type pf struct {
		field string
		neg   bool
	}
	varField := map[string]pf{}
	fieldGetter := map[string]string{}
	for _, f := range files {
		ast.Inspect(f, func(n ast.Node) bool {
			switch x := n.(type) {
			case *ast.CallExpr:
				if sel, ok := x.Fun.(*ast.SelectorExpr); ok && (sel.Sel.Name == "BoolVarP" || sel.Sel.Name == "BoolVar") && len(x.Args) >= 2 {
					if u, ok := x.Args[0].(*ast.UnaryExpr); ok && last(u.X) != "" {
						name, _ := strconv.Unquote(exprStr(fset, x.Args[1]))
						varFlag[last(u.X)] = name
					}
				}
				// c.MustGetX().Active(p.field)
				if sel, ok := x.Fun.(*ast.SelectorExpr); ok && sel.Sel.Name == "Active" && len(x.Args) == 1 {
					if inner, ok := sel.X.(*ast.CallExpr); ok {
						if isel, ok := inner.Fun.(*ast.SelectorExpr); ok && last(x.Args[0]) != "" {
							fieldGetter[last(x.Args[0])] = isel.Sel.Name
						}
					}
				}
			case *ast.KeyValueExpr:
				k := exprStr(fset, x.Key)
				switch v := x.Value.(type) {
				case *ast.Ident, *ast.SelectorExpr:
					if _, done := varField[last(v.(ast.Expr))]; !done || k != last(v.(ast.Expr)) {
						varField[last(v.(ast.Expr))] = pf{k, false}
					}
				case *ast.UnaryExpr:
					if v.Op == token.NOT && last(v.X) != "" {
						varField[last(v.X)] = pf{k, true}
					}
				}
			}
			return true
		})
	}
	var r [][4]string
	for v, flag := range varFlag {
		p, ok := varField[v]
		if !ok {
			continue
		}
		g, ok := fieldGetter[p.field]
		if !ok {
			continue
		}
		neg := "pos"
		if p.neg {
			neg = "neg"
		}
		r = append(r, [4]string{flag, p.field, neg, g})
	}
	sort.Slice(r, func(i, j int) bool { return r[i][0] < r[j][0] })
	return r, nil
}

// getterServices: methods `func (c *T) MustGetX() …` / `GetX()` whose body calls c.Get("id")
func getterServices() ([][2]string, error) {
	fset := token.NewFileSet()
	f, err := parser.ParseFile(fset, filepath.Join(repoRoot(), "internal", "gontainer", "gontainer.go"), nil, 0)
	if err != nil {
		return nil, err
	}
	var r [][2]string
	for _, d := range f.Decls {
		fd, ok := d.(*ast.FuncDecl)
		if !ok || fd.Recv == nil || fd.Body == nil {
			continue
		}
		ast.Inspect(fd.Body, func(n ast.Node) bool {
			call, ok := n.(*ast.CallExpr)
			if ok && exprStr(fset, call.Fun) == "c.Get" && len(call.Args) == 1 {
				id, _ := strconv.Unquote(exprStr(fset, call.Args[0]))
				r = append(r, [2]string{fd.Name.Name, id})
			}
			return true
		})
	}
	sort.Slice(r, func(i, j int) bool { return r[i][0] < r[j][0] })
	return r, nil
}

// ---------------------------------------------------------------------------------------
// runtime API and what the templates emit

func methodNames(t reflect.Type) []string {
	var r []string
	for i := 0; i < t.NumMethod(); i++ {
		r = append(r, t.Method(i).Name)
	}
	sort.Strings(r)
	return r
}

func pkgFuncs(dir string) ([]string, error) {
	fset := token.NewFileSet()
	pkgs, err := parser.ParseDir(fset, dir, func(fi os.FileInfo) bool { return !strings.HasSuffix(fi.Name(), "_test.go") }, 0)
	if err != nil {
		return nil, err
	}
	var r []string
	for _, p := range pkgs {
		for _, f := range p.Files {
			for _, d := range f.Decls {
				switch x := d.(type) {
				case *ast.FuncDecl:
					if x.Recv == nil && x.Name.IsExported() {
						r = append(r, x.Name.Name)
					}
				case *ast.GenDecl:
					for _, s := range x.Specs {
						if ts, ok := s.(*ast.TypeSpec); ok && ts.Name.IsExported() {
							r = append(r, ts.Name.Name)
						}
					}
				}
			}
		}
	}
	sort.Strings(r)
	return r, nil
}

// templateTexts returns all text nodes of all templates (every branch), concatenated per file,
// with actions replaced by a marker naming the action
func templateTexts() (map[string]string, error) {
	dir := filepath.Join(repoRoot(), "internal", "pkg", "template", "templates")
	files, err := filepath.Glob(filepath.Join(dir, "*.tpl"))
	if err != nil {
		return nil, err
	}
	res := map[string]string{}
	funcs := map[string]any{}
	for _, n := range []string{"export", "importAlias", "containerAlias", "groupErrorAlias", "exporterAlias", "callerAlias", "copierAlias", "isTagged", "isString", "eq", "ne", "not", "and", "or", "len", "index", "lt", "gt", "le", "ge", "print", "printf", "println", "html", "js", "call", "slice", "urlquery"} {
		funcs[n] = func() string { return "" }
	}
	for _, fn := range files {
		src, err := os.ReadFile(fn)
		if err != nil {
			return nil, err
		}
		trees, err := parse.Parse(filepath.Base(fn), string(src), "", "", funcs)
		if err != nil {
			return nil, err
		}
		names := make([]string, 0, len(trees))
		for n := range trees {
			names = append(names, n)
		}
		sort.Strings(names)
		var b strings.Builder
		for _, n := range names {
			walkTpl(trees[n].Root, &b)
		}
		res[filepath.Base(fn)] = b.String()
	}
	return res, nil
}

func walkTpl(n parse.Node, b *strings.Builder) {
	if n == nil || reflect.ValueOf(n).IsNil() {
		return
	}
	switch x := n.(type) {
	case *parse.ListNode:
		for _, c := range x.Nodes {
			walkTpl(c, b)
		}
	case *parse.TextNode:
		b.Write(x.Text)
	case *parse.ActionNode:
		b.WriteString("⟦" + x.String() + "⟧")
	case *parse.IfNode:
		b.WriteString("⟦if " + x.Pipe.String() + "⟧")
		walkTpl(x.List, b)
		b.WriteString("⟦else⟧")
		walkTpl(x.ElseList, b)
		b.WriteString("⟦end⟧")
	case *parse.RangeNode:
		b.WriteString("⟦range " + x.Pipe.String() + "⟧")
		walkTpl(x.List, b)
		walkTpl(x.ElseList, b)
		b.WriteString("⟦end⟧")
	case *parse.WithNode:
		walkTpl(x.List, b)
		walkTpl(x.ElseList, b)
	case *parse.TemplateNode:
		b.WriteString("⟦template " + x.Name + "⟧")
	}
}

func factsTemplate(dir string) error {
	texts, err := templateTexts()
	if err != nil {
		return err
	}
	all := ""
	names := make([]string, 0, len(texts))
	for n := range texts {
		names = append(names, n)
	}
	sort.Strings(names)
	for _, n := range names {
		if strings.Contains(n, "comments") {
			continue
		}
		all += texts[n] + "\n"
	}
	uniq := func(re string, text string) []string {
		seen := map[string]bool{}
		for _, m := range regexp.MustCompile(re).FindAllStringSubmatch(text, -1) {
			seen[m[1]] = true
		}
		r := make([]string, 0, len(seen))
		for k := range seen {
			r = append(r, k)
		}
		sort.Strings(r)
		return r
	}
	ctor := texts["body-constructor.go.tpl"]
	svcMethods := uniq(`\bs\.([A-Za-z_]\w*)\(`, ctor)
	contMethods := uniq(`\bc\.([A-Z]\w*)\b`, all)
	contFuncs := uniq(`⟦\{\{containerAlias\}\}⟧\.([A-Za-z_]\w*)`, all)
	geFuncs := uniq(`⟦\{\{groupErrorAlias\}\}⟧\.([A-Za-z_]\w*)`, all)
	exFuncs := uniq(`⟦\{\{exporterAlias\}\}⟧\.([A-Za-z_]\w*)`, all)
	caFuncs := uniq(`⟦\{\{callerAlias\}\}⟧\.([A-Za-z_]\w*)`, all)
	coFuncs := uniq(`⟦\{\{copierAlias\}\}⟧\.([A-Za-z_]\w*)`, all)
	stdImports := uniq(`⟦\{\{importAlias "([^"]+)"\}\}⟧`, all)
	// scope predicate → setter
	var scopePairs [][2]string
	for _, m := range regexp.MustCompile(`⟦(?:if|else if) \$service\.Scope\.(\w+)⟧\s*s\.(\w+)\(\)`).FindAllStringSubmatch(ctor, -1) {
		scopePairs = append(scopePairs, [2]string{m[1], m[2]})
	}
	// `{{ else if }}` is parsed as else{ if }: handle nested form
	if len(scopePairs) == 0 {
		for _, m := range regexp.MustCompile(`⟦if \$service\.Scope\.(\w+)⟧\s*s\.(\w+)\(\)`).FindAllStringSubmatch(ctor, -1) {
			scopePairs = append(scopePairs, [2]string{m[1], m[2]})
		}
	}
	getters := texts["body-container-getters.go.tpl"]
	nilReturns := len(regexp.MustCompile(`return nil,`).FindAllString(getters, -1))
	// method declarations of the getter template: (prefix, suffix, declared under `if $service.MustGetter`)
	type gm struct {
		pre, suf string
		must     bool
	}
	var getterMethods []gm
	{
		mustAt := strings.Index(getters, "⟦if $service.MustGetter⟧")
		re := regexp.MustCompile(`func \(c \*⟦\{\{\$containerType\}\}⟧\) (\w*)⟦\{\{\$service\.Getter\}\}⟧(\w*)\(`)
		for _, m := range re.FindAllStringSubmatchIndex(getters, -1) {
			getterMethods = append(getterMethods, gm{getters[m[2]:m[3]], getters[m[4]:m[5]], mustAt >= 0 && m[0] > mustAt})
		}
	}
	body := texts["body.go.tpl"]
	structFields := uniq(`(?s)type ⟦\{\{\$containerType\}\}⟧ struct \{\s*\*⟦\{\{containerAlias\}\}⟧\.(\w+)\s*\}`, body)
	pkgVars := len(regexp.MustCompile(`(?m)^var\s`).FindAllString(body+texts["head.go.tpl"], -1))
	ifaceMethods := uniq(`(?m)^\s+([A-Z]\w*)\(.*\).*$`, regexp.MustCompile(`(?s)interface_ := \(\*interface \{(.*?)// getters`).FindString(body))
	head := texts["head.go.tpl"]
	stubConstraint := regexp.MustCompile(`⟦if \.Stub⟧\s*//go:build (\w+)`).FindStringSubmatch(head)
	stubTag := ""
	if stubConstraint != nil {
		stubTag = stubConstraint[1]
	}

	rt := reflect.TypeOf(container.New())
	svc := container.NewService()
	contDir := ""
	{
		// directory of the pinned runtime: from the type's package path through the build's module cache
		contDir = os.Getenv("VERIF_HELPERS_DIR")
	}
	var b strings.Builder
	b.WriteString("/- REGENERATED by /verif/tools/implsrv (facts) from template/templates/*.tpl (all branches, via\n   text/template/parse) and from the pinned runtime (reflection + go/ast) — do not edit. -/\nnamespace GM.Generated\n\n")
	fmt.Fprintf(&b, "/-- methods the constructor template calls on a `container.Service` value `s` -/\ndef tplServiceMethods : List String := %s\n", leanStrList(svcMethods))
	fmt.Fprintf(&b, "/-- exported methods/fields the templates use on the container `c` -/\ndef tplContainerMethods : List String := %s\n", leanStrList(contMethods))
	fmt.Fprintf(&b, "def tplContainerPkgSymbols : List String := %s\n", leanStrList(contFuncs))
	fmt.Fprintf(&b, "def tplGroupErrorSymbols : List String := %s\n", leanStrList(geFuncs))
	fmt.Fprintf(&b, "def tplExporterSymbols : List String := %s\n", leanStrList(exFuncs))
	fmt.Fprintf(&b, "def tplCallerSymbols : List String := %s\n", leanStrList(caFuncs))
	fmt.Fprintf(&b, "def tplCopierSymbols : List String := %s\n", leanStrList(coFuncs))
	fmt.Fprintf(&b, "/-- standard-library packages the templates import through `importAlias` -/\ndef tplStdImports : List String := %s\n", leanStrList(stdImports))
	b.WriteString("/-- scope predicate of `output.Scope` ↦ setter emitted in that branch -/\ndef tplScopeSetters : List (String × String) := [")
	for i, p := range scopePairs {
		if i > 0 {
			b.WriteString(", ")
		}
		fmt.Fprintf(&b, "(%s, %s)", leanStr(p[0]), leanStr(p[1]))
	}
	b.WriteString("]\n")
	fmt.Fprintf(&b, "/-- number of `return nil, …` statements in the getter template (ill-typed for value-typed getters) -/\ndef tplGetterNilReturns : Nat := %d\n", nilReturns)
	b.WriteString("/-- methods the getter template declares per service: (prefix, suffix, only under MustGetter) -/\ndef tplGetterMethods : List (String × String × Bool) := [")
	for i, g := range getterMethods {
		if i > 0 {
			b.WriteString(", ")
		}
		fmt.Fprintf(&b, "(%s, %s, %v)", leanStr(g.pre), leanStr(g.suf), g.must)
	}
	b.WriteString("]\n")
	fmt.Fprintf(&b, "/-- embedded field(s) of the generated container struct -/\ndef tplStructEmbedded : List String := %s\n", leanStrList(structFields))
	fmt.Fprintf(&b, "/-- package-level `var` declarations in head/body templates -/\ndef tplPackageVars : Nat := %d\n", pkgVars)
	fmt.Fprintf(&b, "/-- methods of the interface asserted in the generated init() -/\ndef tplInitInterface : List String := %s\n", leanStrList(ifaceMethods))
	fmt.Fprintf(&b, "def tplStubBuildTag : String := %s\n\n", leanStr(stubTag))
	fmt.Fprintf(&b, "/-- method set of `*container.Container` in the pinned runtime (reflection) -/\ndef rtContainerMethods : List String := %s\n", leanStrList(methodNames(rt)))
	fmt.Fprintf(&b, "/-- method set of `*container.Service` in the pinned runtime (reflection) -/\ndef rtServiceMethods : List String := %s\n", leanStrList(methodNames(reflect.TypeOf(&svc))))
	for _, p := range []string{"container", "grouperror", "exporter", "caller", "copier"} {
		var syms []string
		if contDir != "" {
			syms, err = pkgFuncs(filepath.Join(contDir, p))
			if err != nil {
				return err
			}
		}
		fmt.Fprintf(&b, "def rtPkg_%s : List String := %s\n", p, leanStrList(syms))
	}
	b.WriteString("\nend GM.Generated\n")
	return writeIfChanged(filepath.Join(dir, "Template.lean"), b.String())
}

// ---------------------------------------------------------------------------------------
// symbolic rendering of the templates in stub / normal mode (only conditions on the Stub flag are
// decided; every other branch and every range body is included once)

func renderMode(trees map[string]*parse.Tree, n parse.Node, stub bool, b *strings.Builder) {
	if n == nil || reflect.ValueOf(n).IsNil() {
		return
	}
	switch x := n.(type) {
	case *parse.ListNode:
		for _, c := range x.Nodes {
			renderMode(trees, c, stub, b)
		}
	case *parse.TextNode:
		b.Write(x.Text)
	case *parse.ActionNode:
		if strings.Contains(x.String(), ":=") {
			return
		}
		b.WriteString("⟦" + x.Pipe.String() + "⟧")
	case *parse.IfNode:
		c := strings.TrimSpace(x.Pipe.String())
		switch c {
		case ".Stub", "$stub":
			if stub {
				renderMode(trees, x.List, stub, b)
			} else {
				renderMode(trees, x.ElseList, stub, b)
			}
		case "not .Stub", "not $stub":
			if !stub {
				renderMode(trees, x.List, stub, b)
			} else {
				renderMode(trees, x.ElseList, stub, b)
			}
		default:
			renderMode(trees, x.List, stub, b)
			renderMode(trees, x.ElseList, stub, b)
		}
	case *parse.RangeNode:
		renderMode(trees, x.List, stub, b)
	case *parse.WithNode:
		renderMode(trees, x.List, stub, b)
	case *parse.TemplateNode:
		if t, ok := trees[x.Name]; ok {
			renderMode(trees, t.Root, stub, b)
		}
	}
}

func allTrees() (map[string]*parse.Tree, error) {
	dir := filepath.Join(repoRoot(), "internal", "pkg", "template", "templates")
	files, err := filepath.Glob(filepath.Join(dir, "*.tpl"))
	if err != nil {
		return nil, err
	}
	funcs := map[string]any{}
	for _, n := range []string{"export", "importAlias", "containerAlias", "groupErrorAlias", "exporterAlias", "callerAlias", "copierAlias", "isTagged", "isString", "eq", "ne", "not", "and", "or", "len", "index", "lt", "gt", "le", "ge", "print", "printf", "println", "html", "js", "call", "slice", "urlquery"} {
		funcs[n] = func() string { return "" }
	}
	all := map[string]*parse.Tree{}
	for _, fn := range files {
		src, err := os.ReadFile(fn)
		if err != nil {
			return nil, err
		}
		trees, err := parse.Parse(filepath.Base(fn), string(src), "", "", funcs)
		if err != nil {
			return nil, err
		}
		for k, v := range trees {
			all[k] = v
		}
	}
	return all, nil
}

var reFuncHeader = regexp.MustCompile(`(?m)^\s*func\s+(\([^)]*\)\s*)?([^\s(]+)\(([^)]*)\)\s*([^{]*)\{`)

// funcDecls extracts (normalised header, body) of every func declaration in rendered text
func funcDecls(text string) [][2]string {
	var out [][2]string
	locs := reFuncHeader.FindAllStringSubmatchIndex(text, -1)
	for _, l := range locs {
		m := reFuncHeader.FindStringSubmatch(text[l[0]:l[1]])
		if strings.Contains(m[0], "func ()") || strings.Contains(m[0], "func (interface") {
			continue
		}
		// body: up to the matching closing brace
		depth, i := 1, l[1]
		for i < len(text) && depth > 0 {
			switch text[i] {
			case '{':
				depth++
			case '}':
				depth--
			}
			i++
		}
		body := strings.Join(strings.Fields(text[l[1]:i-1]), " ")
		ws := func(s string) string { return strings.Join(strings.Fields(s), " ") }
		results := ws(m[4])
		// erase result names: `(result T, err error)` / `(rootGontainer *T)`
		results = regexp.MustCompile(`\b(result|err|rootGontainer)\s+`).ReplaceAllString(results, "")
		results = strings.ReplaceAll(strings.ReplaceAll(results, "( ", "("), " )", ")")
		hdr := "func " + ws(m[1]) + " " + m[2] + "(" + ws(m[3]) + ") " + results
		out = append(out, [2]string{ws(hdr), body})
	}
	return out
}

func factsStub(dir string) error {
	trees, err := allTrees()
	if err != nil {
		return err
	}
	var b strings.Builder
	b.WriteString("/- REGENERATED by /verif/tools/implsrv (facts): the templates rendered symbolically in stub and normal mode\n   (only conditions on the Stub flag are decided) — do not edit. -/\nnamespace GM.Generated\n\n")
	for _, mode := range []bool{false, true} {
		var head, body strings.Builder
		if t, ok := trees["head.go.tpl"]; ok {
			renderMode(trees, t.Root, mode, &head)
		}
		if t, ok := trees["body.go.tpl"]; ok {
			renderMode(trees, t.Root, mode, &body)
		}
		name := "Normal"
		if mode {
			name = "Stub"
		}
		decls := funcDecls(body.String())
		fmt.Fprintf(&b, "/-- (header with result names erased, body, is a `_helper` method) of every func declared by the templates in %s mode -/\ndef tplFuncs%s : List (String × String × Bool) := [\n", name, name)
		for i, d := range decls {
			sep := ","
			if i == len(decls)-1 {
				sep = ""
			}
			fmt.Fprintf(&b, "  (%s, %s, %v)%s\n", leanStr(d[0]), leanStr(d[1]), strings.Contains(d[0], ") _"), sep)
		}
		b.WriteString("]\n")
		// type declarations and the first lines of the head
		types := regexp.MustCompile(`(?m)^type\s+(\S+)\s+struct`).FindAllStringSubmatch(body.String(), -1)
		var ts []string
		for _, t := range types {
			ts = append(ts, t[1])
		}
		fmt.Fprintf(&b, "def tplTypes%s : List String := %s\n", name, leanStrList(ts))
		hl := []string{}
		for _, l := range strings.Split(head.String(), "\n") {
			l = strings.TrimSpace(l)
			if l != "" && len(hl) < 3 {
				hl = append(hl, l)
			}
		}
		fmt.Fprintf(&b, "def tplHeadLines%s : List String := %s\n\n", name, leanStrList(hl))
	}
	b.WriteString("end GM.Generated\n")
	return writeIfChanged(filepath.Join(dir, "Stub.lean"), b.String())
}

func facts(dir string) error {
	if err := os.MkdirAll(dir, 0o755); err != nil {
		return err
	}
	if err := factsRegex(dir); err != nil {
		return err
	}
	if err := factsWiring(dir); err != nil {
		return err
	}
	if err := factsTemplate(dir); err != nil {
		return err
	}
	if err := factsStub(dir); err != nil {
		return err
	}
	if err := factsLibrary(dir); err != nil {
		return err
	}
	return nil
}

// ---------------------------------------------------------------------------------------
// the pinned runtime library: the statements of (*Container).get and (*Container).getParam, flattened

func flatStmts(fset *token.FileSet, list []ast.Stmt, out *[]string) {
	pr := func(n ast.Node) string {
		var sb strings.Builder
		_ = printer.Fprint(&sb, fset, n)
		return strings.Join(strings.Fields(sb.String()), " ")
	}
	for _, st := range list {
		switch x := st.(type) {
		case *ast.IfStmt:
			h := "if "
			if x.Init != nil {
				h += pr(x.Init) + "; "
			}
			*out = append(*out, h+pr(x.Cond)+" {")
			flatStmts(fset, x.Body.List, out)
			for x.Else != nil {
				if eb, ok := x.Else.(*ast.BlockStmt); ok {
					*out = append(*out, "} else {")
					flatStmts(fset, eb.List, out)
					break
				}
				ei := x.Else.(*ast.IfStmt)
				*out = append(*out, "} else if "+pr(ei.Cond)+" {")
				flatStmts(fset, ei.Body.List, out)
				x = ei
			}
			*out = append(*out, "}")
		case *ast.SwitchStmt:
			h := "switch"
			if x.Tag != nil {
				h += " " + pr(x.Tag)
			}
			*out = append(*out, h+" {")
			for _, c := range x.Body.List {
				cc := c.(*ast.CaseClause)
				if cc.List == nil {
					*out = append(*out, "default:")
				} else {
					var ls []string
					for _, e := range cc.List {
						ls = append(ls, pr(e))
					}
					*out = append(*out, "case "+strings.Join(ls, ", ")+":")
				}
				flatStmts(fset, cc.Body, out)
			}
			*out = append(*out, "}")
		case *ast.DeferStmt:
			if fl, ok := x.Call.Fun.(*ast.FuncLit); ok {
				*out = append(*out, "defer func() {")
				flatStmts(fset, fl.Body.List, out)
				*out = append(*out, "}()")
			} else {
				*out = append(*out, "defer "+pr(x.Call))
			}
		case *ast.ForStmt:
			*out = append(*out, "for … {")
			flatStmts(fset, x.Body.List, out)
			*out = append(*out, "}")
		case *ast.RangeStmt:
			*out = append(*out, "for … range "+pr(x.X)+" {")
			flatStmts(fset, x.Body.List, out)
			*out = append(*out, "}")
		case *ast.BlockStmt:
			*out = append(*out, "{")
			flatStmts(fset, x.List, out)
			*out = append(*out, "}")
		default:
			*out = append(*out, pr(st))
		}
	}
}

func libMethod(dir, file, name string) ([]string, error) {
	fset := token.NewFileSet()
	f, err := parser.ParseFile(fset, filepath.Join(dir, "container", file), nil, 0)
	if err != nil {
		return nil, err
	}
	for _, d := range f.Decls {
		fd, ok := d.(*ast.FuncDecl)
		if ok && fd.Recv != nil && fd.Name.Name == name && fd.Body != nil {
			var out []string
			flatStmts(fset, fd.Body.List, &out)
			return out, nil
		}
	}
	return nil, fmt.Errorf("method %s not found in %s", name, file)
}

func factsLibrary(dir string) error {
	lib := os.Getenv("VERIF_HELPERS_DIR")
	if lib == "" {
		return fmt.Errorf("VERIF_HELPERS_DIR is not set")
	}
	gomod, err := os.ReadFile(filepath.Join(repoRoot(), "go.mod"))
	if err != nil {
		return err
	}
	ver := ""
	if m := regexp.MustCompile(`(?m)^\s*github\.com/gontainer/gontainer-helpers/v3\s+(\S+)`).FindSubmatch(gomod); m != nil {
		ver = string(m[1])
	}
	get, err := libMethod(lib, "container_services.go", "get")
	if err != nil {
		return err
	}
	getParam, err := libMethod(lib, "container_params.go", "getParam")
	if err != nil {
		return err
	}
	var b strings.Builder
	b.WriteString("/- REGENERATED by /verif/tools/implsrv (facts) from the runtime library the repository's go.mod pins (module cache) — do not edit. -/\nnamespace GM.Generated\n\n")
	fmt.Fprintf(&b, "/-- version of github.com/gontainer/gontainer-helpers/v3 required by /repo/go.mod -/\ndef libVersion : String := %s\n\n", leanStr(ver))
	fmt.Fprintf(&b, "/-- the statements of `(*Container).get` (container_services.go), flattened in source order -/\ndef libGet : List String := %s\n\n", leanStrList(get))
	fmt.Fprintf(&b, "/-- the statements of `(*Container).getParam` (container_params.go) -/\ndef libGetParam : List String := %s\n\nend GM.Generated\n", leanStrList(getParam))
	return writeIfChanged(filepath.Join(dir, "Library.lean"), b.String())
}
