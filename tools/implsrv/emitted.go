//go:build verif

package main

import (
	"go/ast"
	"go/parser"
	"go/token"
	"regexp"
	"strings"
)

// opEmitted: the statements of the generated constructor of a generated file, as (callee, argument source texts)
// in order: c.OverrideParam(…), per service block s.SetConstructor / s.SetValue / s.SetField / s.AppendCall /
// s.AppendWither / s.Tag / s.SetScope… / c.OverrideService, then c.AddDecorator(…). Whitespace is removed from
// every text (gofmt re-flows it) and import aliases of the template's own `errors` import are normalised.
func opEmitted(req J) J {
	fset := token.NewFileSet()
	f, err := parser.ParseFile(fset, str(req, "path"), nil, 0)
	if err != nil {
		return J{"err": err.Error()}
	}
	ws := regexp.MustCompile(`\s+`)
	errAlias := regexp.MustCompile(`\bi[0-9a-f]+_errors\b`)
	norm := func(n ast.Expr) string {
		return errAlias.ReplaceAllString(ws.ReplaceAllString(exprStr(fset, n), ""), "errors")
	}
	var out []any
	stmt := func(call *ast.CallExpr) {
		args := []any{}
		for _, a := range call.Args {
			args = append(args, norm(a))
		}
		out = append(out, []any{norm(call.Fun), args})
	}
	ast.Inspect(f, func(n ast.Node) bool {
		fd, ok := n.(*ast.FuncDecl)
		if !ok {
			return true
		}
		if fd.Recv != nil || fd.Type.Results == nil || fd.Body == nil || fd.Name.Name == "init" {
			return false
		}
		for _, st := range fd.Body.List {
			switch x := st.(type) {
			case *ast.BlockStmt:
				for _, bs := range x.List {
					if es, ok := bs.(*ast.ExprStmt); ok {
						if call, ok := es.X.(*ast.CallExpr); ok {
							stmt(call)
						}
					}
				}
			case *ast.ExprStmt:
				if call, ok := x.X.(*ast.CallExpr); ok {
					fn := exprStr(fset, call.Fun)
					if strings.HasPrefix(fn, "c.") {
						stmt(call)
					}
				}
			}
		}
		return false
	})
	return J{"ok": out}
}
