//go:build verif

package main

import (
	"go/ast"
	"go/parser"
	"go/token"
	"sort"
	"strconv"
	"strings"
)

// opSurface reads a generated file with go/parser and returns its API surface and every reference
// to an imported package classified by where it occurs (signature/type declaration vs function body).
func opSurface(req J) J {
	fset := token.NewFileSet()
	f, err := parser.ParseFile(fset, str(req, "path"), nil, parser.ParseComments)
	if err != nil {
		return J{"err": err.Error()}
	}
	imports := map[string]string{}
	for _, im := range f.Imports {
		p, _ := strconv.Unquote(im.Path.Value)
		name := ""
		if im.Name != nil {
			name = im.Name.Name
		} else {
			parts := strings.Split(p, "/")
			name = parts[len(parts)-1]
		}
		imports[name] = p
	}
	constraint := ""
	for _, cg := range f.Comments {
		for _, c := range cg.List {
			if strings.HasPrefix(c.Text, "//go:build ") && c.Pos() < f.Package {
				constraint = strings.TrimPrefix(c.Text, "//go:build ")
			}
		}
	}
	resolve := func(s string) string {
		// replace local import names by their paths so that both modes are comparable
		for n, p := range imports {
			s = strings.ReplaceAll(s, n+".", "<"+p+">.")
		}
		return s
	}
	var funcs []J
	var types []string
	refs := []J{}
	collect := func(n ast.Node, where string) {
		ast.Inspect(n, func(x ast.Node) bool {
			if sel, ok := x.(*ast.SelectorExpr); ok {
				if id, ok := sel.X.(*ast.Ident); ok {
					if p, ok := imports[id.Name]; ok && id.Obj == nil {
						refs = append(refs, J{"pkg": p, "sym": sel.Sel.Name, "where": where})
					}
				}
			}
			return true
		})
	}
	for _, d := range f.Decls {
		switch x := d.(type) {
		case *ast.FuncDecl:
			recv := ""
			if x.Recv != nil && len(x.Recv.List) > 0 {
				recv = exprStr(fset, x.Recv.List[0].Type)
			}
			// signature with parameter/result names erased
			var in, out []string
			if x.Type.Params != nil {
				for _, p := range x.Type.Params.List {
					n := len(p.Names)
					if n == 0 {
						n = 1
					}
					for i := 0; i < n; i++ {
						in = append(in, resolve(exprStr(fset, p.Type)))
					}
				}
			}
			if x.Type.Results != nil {
				for _, p := range x.Type.Results.List {
					n := len(p.Names)
					if n == 0 {
						n = 1
					}
					for i := 0; i < n; i++ {
						out = append(out, resolve(exprStr(fset, p.Type)))
					}
				}
			}
			body := ""
			if x.Body != nil {
				body = strings.Join(strings.Fields(exprStr(fset, &ast.CallExpr{Fun: &ast.FuncLit{Type: &ast.FuncType{}, Body: x.Body}})), " ")
			}
			funcs = append(funcs, J{"recv": recv, "name": x.Name.Name, "in": in, "out": out, "body": body})
			collect(x.Type, "signature")
			if x.Body != nil {
				collect(x.Body, "body:"+x.Name.Name)
			}
		case *ast.GenDecl:
			for _, s := range x.Specs {
				switch sp := s.(type) {
				case *ast.TypeSpec:
					types = append(types, sp.Name.Name+" "+resolve(exprStr(fset, sp.Type)))
					collect(sp.Type, "typedecl")
				case *ast.ValueSpec:
					collect(sp, "var")
				}
			}
		}
	}
	sort.Slice(funcs, func(i, j int) bool {
		return funcs[i]["recv"].(string)+funcs[i]["name"].(string) < funcs[j]["recv"].(string)+funcs[j]["name"].(string)
	})
	imps := []string{}
	for _, p := range imports {
		imps = append(imps, p)
	}
	sort.Strings(imps)
	return J{"package": f.Name.Name, "constraint": constraint, "types": types, "funcs": funcs, "refs": refs, "imports": imps}
}
