//go:build verif

// implsrv answers the verification line protocol with the REAL gontainer code, in-process.
// It is compiled inside /repo's module through `go build -tags verif -overlay …`
// (virtual path /repo/internal/verifdrv), so it may import internal packages while
// /repo's working tree stays untouched.
//
//	implsrv serve            line protocol on stdin/stdout (one JSON object per line)
//	implsrv facts <outdir>   regenerate GontainerModel/Generated/*.lean from the tree
package main

import (
	"bufio"
	"bytes"
	"encoding/json"
	"fmt"
	"os"
	"path/filepath"
	"runtime/debug"
	"sort"
	"strconv"
	"strings"

	"github.com/gontainer/gontainer-helpers/v3/container"
	"github.com/gontainer/gontainer-helpers/v3/exporter"
	"github.com/gontainer/gontainer-helpers/v3/grouperror"
	"github.com/gontainer/gontainer/internal/cmd"
	"github.com/gontainer/gontainer/internal/cmd/runner"
	"github.com/gontainer/gontainer/internal/gontainer"
	"github.com/gontainer/gontainer/internal/pkg/imports"
	"github.com/gontainer/gontainer/internal/pkg/input"
	"github.com/gontainer/gontainer/internal/pkg/maps"
	"github.com/gontainer/gontainer/internal/pkg/output"
	"github.com/gontainer/gontainer/internal/pkg/syntax"
	"github.com/gontainer/gontainer/internal/pkg/token"
	"gopkg.in/yaml.v3"
)

type J = map[string]any

func main() {
	if len(os.Args) < 2 {
		fmt.Fprintln(os.Stderr, "usage: implsrv serve | facts <outdir>")
		os.Exit(2)
	}
	switch os.Args[1] {
	case "serve":
		serve()
	case "roles":
		// name ↦ pattern text of every compiled package-level expression (written once, on the tree the model was written for)
		m := map[string]string{}
		for n, re := range allRegexes() {
			m[n] = re.String()
		}
		b, _ := json.MarshalIndent(m, "", " ")
		fmt.Println(string(b))
	case "facts":
		if err := facts(os.Args[2]); err != nil {
			fmt.Fprintln(os.Stderr, "facts:", err)
			os.Exit(3)
		}
	default:
		os.Exit(2)
	}
}

func serve() {
	in := bufio.NewReaderSize(os.Stdin, 1<<20)
	out := bufio.NewWriter(os.Stdout)
	for {
		line, err := in.ReadBytes('\n')
		if len(bytes.TrimSpace(line)) > 0 {
			var req J
			var resp J
			if e := json.Unmarshal(line, &req); e != nil {
				resp = J{"badreq": e.Error()}
			} else {
				resp = safe(req)
			}
			b, _ := json.Marshal(resp)
			out.Write(b)
			out.WriteByte('\n')
			out.Flush()
		}
		if err != nil {
			return
		}
	}
}

func safe(req J) (resp J) {
	defer func() {
		if r := recover(); r != nil {
			resp = J{"panic": fmt.Sprint(r), "stack": string(debug.Stack())}
		}
	}()
	return handle(req)
}

func str(req J, k string) string {
	s, _ := req[k].(string)
	return s
}

func strs(v any) []string {
	l, _ := v.([]any)
	r := make([]string, 0, len(l))
	for _, x := range l {
		s, _ := x.(string)
		r = append(r, s)
	}
	return r
}

func errList(err error) []string {
	r := []string{}
	for _, e := range grouperror.Collection(err) {
		r = append(r, e.Error())
	}
	return r
}

// newContainer returns the shipped wiring with the run-time parameters set.
func newContainer(version string) *containerT {
	c := gontainer.New()
	c.OverrideParam("version", container.NewDependencyValue(version))
	c.OverrideParam("buildInfo", container.NewDependencyValue("verif"))
	c.OverrideParam("stub", container.NewDependencyValue(false))
	return &containerT{c}
}

type containerT struct {
	c interface {
		Get(string) (any, error)
		OverrideParam(string, container.Dependency)
		OverrideService(string, container.Service)
	}
}

func (c *containerT) must(id string) any {
	v, err := c.c.Get(id)
	if err != nil {
		panic("container.Get(" + id + "): " + err.Error())
	}
	return v
}

func handle(req J) J {
	switch str(req, "op") {
	case "ping":
		return J{"pong": true}
	case "chdir":
		if err := os.Chdir(str(req, "dir")); err != nil {
			return J{"err": err.Error()}
		}
		return J{"ok": true}
	case "chunks":
		r, err := token.NewChunker().Chunks(str(req, "s"))
		if err != nil {
			return J{"err": err.Error()}
		}
		return J{"ok": r}
	case "quote":
		return J{"ok": exporter.MustExport(str(req, "s"))}
	case "unquote":
		v, err := strconv.Unquote(str(req, "s"))
		if err != nil {
			return J{"err": "invalid"}
		}
		return J{"ok": v}
	case "export":
		v := valFromJSON(req["v"])
		s, err := exporter.Export(v)
		if err != nil {
			return J{"err": err.Error()}
		}
		return J{"ok": s}
	case "cast":
		v := valFromJSON(req["v"])
		s, err := exporter.CastToString(v)
		if err != nil {
			return J{"err": err.Error()}
		}
		return J{"ok": s}
	case "re":
		return opRe(req)
	case "sanitize":
		return J{"ok": syntax.SanitizeImport(str(req, "s"))}
	case "tokenize":
		return opTokenize(req)
	case "alias":
		return opAlias(req)
	case "decode":
		return opDecode(req)
	case "emitted":
		return opEmitted(req)
	case "decodeNode":
		y := []byte(str(req, "yaml"))
		switch str(req, "kind") {
		case "tag":
			var t input.Tag
			if err := yaml.Unmarshal(y, &t); err != nil {
				return J{"err": err.Error()}
			}
			return J{"ok": J{"name": t.Name, "priority": t.Priority}}
		case "call":
			var c input.Call
			if err := yaml.Unmarshal(y, &c); err != nil {
				return J{"err": err.Error()}
			}
			args := make([]any, len(c.Args))
			for i, a := range c.Args {
				args[i] = valJSON(a)
			}
			return J{"ok": J{"method": c.Method, "args": args, "immutable": c.Immutable}}
		case "scope":
			var sc input.Scope
			if err := yaml.Unmarshal(y, &sc); err != nil {
				return J{"err": err.Error()}
			}
			return J{"ok": sc.String()}
		}
		return J{"err": "unknown kind"}
	case "merge":
		return opMerge(req)
	case "compile":
		return opCompile(req)
	case "mergetree":
		i, err := mergeTree(req["tree"])
		if err != nil {
			return J{"err": err.Error()}
		}
		return J{"ok": inputJSON(i)}
	case "version":
		return opVersion(req)
	case "build":
		return opBuild(req)
	case "mapkeys":
		m := map[string]int{}
		for i, k := range strs(req["keys"]) {
			m[k] = i
		}
		return J{"ok": maps.Keys(m)}
	case "surface":
		return opSurface(req)
	case "glob":
		m, err := filepath.Glob(str(req, "pattern"))
		if err != nil {
			return J{"err": err.Error()}
		}
		if m == nil {
			m = []string{}
		}
		return J{"ok": m}
	case "clean":
		return J{"ok": filepath.Clean(str(req, "s"))}
	case "readfile":
		buff, err := os.ReadFile(str(req, "path"))
		if err != nil {
			return J{"errs": errList(grouperror.Prefix("could not read the file: ", err))}
		}
		var tmp input.Input
		if err := yaml.Unmarshal(buff, &tmp); err != nil {
			return J{"errs": errList(grouperror.Prefix("parsing yaml: ", err))}
		}
		return J{"ok": inputJSON(tmp)}
	}
	return J{"badop": str(req, "op")}
}

func opRe(req J) J {
	re, ok := roleRegexes()[str(req, "name")]
	if !ok {
		return J{"err": "unknown regex"}
	}
	s := str(req, "s")
	if !re.MatchString(s) {
		return J{"match": false}
	}
	groups := [][2]string{}
	m := re.FindStringSubmatch(s)
	seen := map[string]bool{}
	for i, n := range re.SubexpNames() {
		if i != 0 && n != "" && !seen[n] {
			seen[n] = true
			groups = append(groups, [2]string{n, m[i]})
		}
	}
	return J{"match": true, "groups": groups}
}

func tokenJSON(t token.Token) J {
	kind := map[token.Kind]string{token.KindString: "str", token.KindReference: "ref", token.KindFunc: "fn"}[t.Kind]
	dep := t.DependsOn
	if dep == nil {
		dep = []string{}
	}
	return J{"kind": kind, "raw": t.Raw, "dependsOn": dep, "code": t.Code}
}

// tokenize through the shipped tokenizer; `functions` are registered first like StepCompileMeta does.
func opTokenize(req J) J {
	c := newContainer("")
	if fns, ok := req["functions"].([]any); ok {
		reg := c.must("fnRegisterer").(interface {
			RegisterFunc(fnAlias string, goImport string, goFn string)
		})
		for _, f := range fns {
			t := strs(f)
			reg.RegisterFunc(t[0], t[1], t[2])
		}
	}
	tk := c.must("tokenizer").(interface {
		Tokenize(string) (token.Tokens, error)
	})
	tkns, err := tk.Tokenize(str(req, "s"))
	if err != nil {
		return J{"errs": errList(err)}
	}
	r := []J{}
	for _, t := range tkns {
		r = append(r, tokenJSON(t))
	}
	code, cerr := tkns.GoCode()
	if cerr != nil {
		return J{"errs": []string{cerr.Error()}}
	}
	return J{"ok": r, "code": code, "imports": importsJSON(c)}
}

func importsJSON(c *containerT) [][2]string {
	imps := c.must("imports").(interface{ Imports() []imports.Import }).Imports()
	r := [][2]string{}
	for _, i := range imps {
		r = append(r, [2]string{i.Alias, i.Path})
	}
	return r
}

func opAlias(req J) J {
	im := imports.New()
	errs := []string{}
	if ps, ok := req["prefixes"].([]any); ok {
		for _, p := range ps {
			t := strs(p)
			if err := im.RegisterPrefixAlias(t[0], t[1]); err != nil {
				errs = append(errs, err.Error())
			}
		}
	}
	names := []string{}
	for _, s := range strs(req["seq"]) {
		names = append(names, im.Alias(s))
	}
	r := [][2]string{}
	for _, i := range im.Imports() {
		r = append(r, [2]string{i.Alias, i.Path})
	}
	return J{"names": names, "imports": r, "errs": errs}
}

// ---------------------------------------------------------------------------------------
// values and inputs

func valJSON(v any) J {
	switch x := v.(type) {
	case nil:
		return J{"t": "null"}
	case bool:
		return J{"t": "bool", "v": x}
	case int:
		return J{"t": "int", "v": strconv.Itoa(x)}
	case int64:
		return J{"t": "int", "v": strconv.FormatInt(x, 10)}
	case uint64:
		return J{"t": "uint", "v": strconv.FormatUint(x, 10)}
	case uint:
		return J{"t": "uint", "v": strconv.FormatUint(uint64(x), 10)}
	case float64:
		return J{"t": "float", "v": strconv.FormatFloat(x, 'f', -1, 64)}
	case string:
		return J{"t": "str", "v": x}
	}
	return J{"t": "other", "v": fmt.Sprintf("%T", v)}
}

func valFromJSON(j any) any {
	m, _ := j.(map[string]any)
	s, _ := m["v"].(string)
	switch m["t"] {
	case "null":
		return nil
	case "bool":
		return m["v"].(bool)
	case "int":
		i, _ := strconv.Atoi(s)
		return i
	case "uint":
		u, _ := strconv.ParseUint(s, 10, 64)
		return u
	case "float":
		f, _ := strconv.ParseFloat(s, 64)
		return f
	case "str":
		return s
	}
	return struct{}{}
}

func valsJSON(vs []any) []J {
	r := []J{}
	for _, v := range vs {
		r = append(r, valJSON(v))
	}
	return r
}

func optS(p *string) any {
	if p == nil {
		return nil
	}
	return *p
}

func optB(p *bool) any {
	if p == nil {
		return nil
	}
	return *p
}

func sortedKeys[V any](m map[string]V) []string {
	ks := make([]string, 0, len(m))
	for k := range m {
		ks = append(ks, k)
	}
	sort.Strings(ks)
	return ks
}

func strMapJSON(m map[string]string) [][2]string {
	r := [][2]string{}
	for _, k := range sortedKeys(m) {
		r = append(r, [2]string{k, m[k]})
	}
	return r
}

func valMapJSON(m map[string]any) []any {
	r := []any{}
	for _, k := range sortedKeys(m) {
		r = append(r, []any{k, valJSON(m[k])})
	}
	return r
}

func inputJSON(i input.Input) J {
	var ver any
	if i.Version != nil {
		ver = string(*i.Version)
	}
	svcs := []any{}
	for _, k := range sortedKeys(i.Services) {
		s := i.Services[k]
		calls := []J{}
		for _, c := range s.Calls {
			calls = append(calls, J{"method": c.Method, "args": valsJSON(c.Args), "immutable": c.Immutable})
		}
		tags := []J{}
		for _, t := range s.Tags {
			tags = append(tags, J{"name": t.Name, "priority": strconv.Itoa(t.Priority)})
		}
		var scope any
		if s.Scope != nil {
			scope = s.Scope.String()
		}
		svcs = append(svcs, []any{k, J{
			"getter": optS(s.Getter), "must_getter": optB(s.MustGetter), "type": optS(s.Type),
			"value": optS(s.Value), "constructor": optS(s.Constructor), "args": valsJSON(s.Args),
			"calls": calls, "fields": valMapJSON(s.Fields), "tags": tags, "scope": scope, "todo": optB(s.Todo),
		}})
	}
	decs := []J{}
	for _, d := range i.Decorators {
		decs = append(decs, J{"tag": d.Tag, "decorator": d.Decorator, "args": valsJSON(d.Args)})
	}
	return J{
		"version": ver,
		"meta": J{
			"pkg": optS(i.Meta.Pkg), "container_type": optS(i.Meta.ContainerType),
			"container_constructor": optS(i.Meta.ContainerConstructor),
			"default_must_getter":   optB(i.Meta.DefaultMustGetter),
			"imports":               strMapJSON(i.Meta.Imports), "functions": strMapJSON(i.Meta.Functions),
		},
		"params":     valMapJSON(i.Params),
		"services":   svcs,
		"decorators": decs,
	}
}

// decode one YAML document through the real unmarshallers
func opDecode(req J) J {
	var i input.Input
	if err := yaml.Unmarshal([]byte(str(req, "yaml")), &i); err != nil {
		return J{"err": err.Error()}
	}
	return J{"ok": inputJSON(i)}
}

func readAll(files []string, defaults bool) (input.Input, error) {
	i := input.Input{}
	if defaults {
		_ = runner.StepDefaultInput{}.Run(&i, nil)
	}
	for n, f := range files {
		var tmp input.Input
		if err := yaml.Unmarshal([]byte(f), &tmp); err != nil {
			return i, fmt.Errorf("file %d: %w", n, err)
		}
		i = input.Merge(i, tmp)
	}
	return i, nil
}

// mergeTree: a leaf is a YAML document (string), an inner node a list of subtrees merged left to right
func mergeTree(t any) (input.Input, error) {
	switch x := t.(type) {
	case string:
		var i input.Input
		err := yaml.Unmarshal([]byte(x), &i)
		return i, err
	case []any:
		acc := input.Input{}
		for n, sub := range x {
			i, err := mergeTree(sub)
			if err != nil {
				return acc, err
			}
			if n == 0 {
				acc = i
			} else {
				acc = input.Merge(acc, i)
			}
		}
		return acc, nil
	}
	return input.Input{}, fmt.Errorf("bad tree")
}

// merge the given YAML documents left to right with the real input.Merge
func opMerge(req J) J {
	d, _ := req["defaults"].(bool)
	i, err := readAll(strs(req["files"]), d)
	if err != nil {
		return J{"err": err.Error()}
	}
	return J{"ok": inputJSON(i)}
}

func argJSON(a output.Arg) J {
	return J{"code": a.Code, "raw": valJSON(a.Raw), "dp": nn(a.DependsOnParams), "ds": nn(a.DependsOnServices), "dt": nn(a.DependsOnTags)}
}

func nn(s []string) []string {
	if s == nil {
		return []string{}
	}
	return s
}

func argsJSON(as []output.Arg) []J {
	r := []J{}
	for _, a := range as {
		r = append(r, argJSON(a))
	}
	return r
}

func outputJSON(o output.Output) J {
	params := []J{}
	for _, p := range o.Params {
		params = append(params, J{"name": p.Name, "code": p.Code, "raw": valJSON(p.Raw), "dependsOn": nn(p.DependsOn)})
	}
	svcs := []J{}
	for _, s := range o.Services {
		calls := []J{}
		for _, c := range s.Calls {
			calls = append(calls, J{"method": c.Method, "args": argsJSON(c.Args), "immutable": c.Immutable})
		}
		fields := []J{}
		for _, f := range s.Fields {
			fields = append(fields, J{"name": f.Name, "value": argJSON(f.Value)})
		}
		tags := []J{}
		for _, t := range s.Tags {
			tags = append(tags, J{"name": t.Name, "priority": strconv.Itoa(t.Priority)})
		}
		scope := "default"
		switch {
		case s.Scope.IsShared():
			scope = "shared"
		case s.Scope.IsContextual():
			scope = "contextual"
		case s.Scope.IsNonShared():
			scope = "non_shared"
		case s.Scope.IsDefault():
			scope = "default"
		default:
			scope = fmt.Sprintf("invalid(%d)", s.Scope)
		}
		svcs = append(svcs, J{
			"name": s.Name, "getter": s.Getter, "mustGetter": s.MustGetter, "type": s.Type, "value": s.Value,
			"constructor": s.Constructor, "args": argsJSON(s.Args), "calls": calls, "fields": fields, "tags": tags,
			"scope": scope, "todo": s.Todo,
		})
	}
	decs := []J{}
	for _, d := range o.Decorators {
		decs = append(decs, J{"tag": d.Tag, "decorator": d.Decorator, "args": argsJSON(d.Args), "raw": d.Raw})
	}
	return J{
		"meta":   J{"pkg": o.Meta.Pkg, "containerType": o.Meta.ContainerType, "containerConstructor": o.Meta.ContainerConstructor},
		"params": params, "services": svcs, "decorators": decs,
	}
}

// compile the merged documents with the shipped compiler, then run the four output validators
func opCompile(req J) J {
	i, err := readAll(strs(req["files"]), true)
	if err != nil {
		return J{"decodeErr": err.Error()}
	}
	c := newContainer(str(req, "version"))
	comp := c.must("compiler").(interface {
		Compile(input.Input) (output.Output, error)
	})
	o, cerr := comp.Compile(i)
	res := J{"input": inputJSON(i), "errs": errList(cerr)}
	if cerr != nil {
		return res
	}
	res["output"] = outputJSON(o)
	res["imports"] = importsJSON(c)
	res["scope"] = errList(output.ValidateServicesScopes(o))
	res["cycles"] = errList(output.ValidateCircularDeps(o))
	res["params"] = errList(output.ValidateParamsExist(o))
	res["services"] = errList(output.ValidateServicesExist(o))
	return res
}

// version gate: build version B (as handed to NewBuildCmd, i.e. after main strips "v"), config YAML
func opVersion(req J) J {
	var i input.Input
	if err := yaml.Unmarshal([]byte(str(req, "yaml")), &i); err != nil {
		return J{"decodeErr": err.Error()}
	}
	v := input.NewVersionValidator(str(req, "build"))
	return J{"errs": errList(v.ValidateVersion(i))}
}

// run the real build command in-process: args as on the command line after "build"
func opBuild(req J) J {
	var buf bytes.Buffer
	cm := cmd.NewBuildCmd(str(req, "version"), str(req, "buildInfo"))
	cm.SetOut(&buf)
	cm.SetErr(&buf)
	cm.SetArgs(strs(req["args"]))
	if wd := str(req, "cwd"); wd != "" {
		old, _ := os.Getwd()
		_ = os.Chdir(wd)
		defer func() { _ = os.Chdir(old) }()
	}
	err := cm.Execute()
	exit := 0
	if err != nil {
		exit = 1
	}
	return J{"exit": exit, "stdout": buf.String(), "errs": errList(err)}
}

var _ = strings.TrimSpace
